"""Import PyDRex from /repo's *current working tree* and prepare the process.

`VERIF_PYDREX_SRC` redirects the import to a scratch copy (sensitivity runs only).
"""

import hashlib
import logging
import os
import sys
import warnings

REPO_SRC = os.environ.get("VERIF_PYDREX_SRC", "/repo/src")

_booted = False
pydrex = None


def source_hash(src=None):
    src = src or REPO_SRC
    h = hashlib.sha256()
    d = os.path.join(src, "pydrex")
    for name in sorted(os.listdir(d)):
        if name.endswith(".py"):
            h.update(name.encode())
            with open(os.path.join(d, name), "rb") as f:
                h.update(f.read())
    return h.hexdigest()[:16]


def boot():
    """Import pydrex from REPO_SRC; silence its logging; return the module."""
    global _booted, pydrex
    if _booted:
        return pydrex
    os.environ.setdefault("NUMBA_NUM_THREADS", "1")
    os.environ.setdefault("OMP_NUM_THREADS", "1")
    os.environ.setdefault("OPENBLAS_NUM_THREADS", "1")
    os.environ.setdefault("MKL_NUM_THREADS", "1")
    os.environ.setdefault("MPLBACKEND", "Agg")
    # never write .pyc or numba caches next to the sources under test
    sys.dont_write_bytecode = True
    if REPO_SRC in sys.path:
        sys.path.remove(REPO_SRC)
    sys.path.insert(0, REPO_SRC)
    warnings.filterwarnings("ignore")
    import numpy as np

    np.seterr(all="ignore")
    import pydrex as _p

    got = os.path.realpath(os.path.dirname(os.path.dirname(_p.__file__)))
    want = os.path.realpath(REPO_SRC)
    if got != want:
        raise RuntimeError(f"pydrex imported from {got}, expected {want}")
    sys.excepthook = sys.__excepthook__  # pydrex.logger installs one that logs (silenced below)
    logging.getLogger("pydrex").setLevel(logging.CRITICAL + 1)
    for h in logging.getLogger("pydrex").handlers:
        h.setLevel(logging.CRITICAL + 1)
    pydrex = _p
    _booted = True
    return pydrex

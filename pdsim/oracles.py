"""Oracles shared by Engine A properties."""

import numpy as np

from .world import sha


def ortho_bound(N, strain):
    return 5e-3 + 1e-3 * (N + 2.0 * strain)


def snapshot_checks(A, f, n, N, strain):
    """Validity clauses of C01 for one stored snapshot.  Returns list of
    (clause, detail) violations."""
    out = []
    A = np.asarray(A)
    f = np.asarray(f)
    if A.shape != (n, 3, 3) or f.shape != (n,) or A.dtype != np.float64 or f.dtype != np.float64:
        out.append(("shape", {"A": [list(A.shape), str(A.dtype)], "f": [list(f.shape), str(f.dtype)],
                              "n": n}))
        return out
    if not np.all(np.isfinite(f)) or np.any(f < 0) or abs(float(f.sum()) - 1.0) > 1e-9:
        out.append(("simplex", {"min": float(np.nanmin(f)) if f.size else None,
                                "sum": float(np.nansum(f)),
                                "finite": bool(np.all(np.isfinite(f)))}))
    if not np.all(np.isfinite(A)) or np.any(np.abs(A) > 1.0):
        out.append(("finite_range", {"finite": bool(np.all(np.isfinite(A))),
                                     "maxabs": float(np.nanmax(np.abs(A)))}))
    else:
        err = float(np.abs(np.einsum("gij,gkj->gik", A, A) - np.eye(3)).max())
        det = np.linalg.det(A)
        bound = ortho_bound(N, strain)
        if err > bound or np.any(det <= 0):
            out.append(("orthonormal", {"err": err, "bound": bound, "N": N, "strain": strain,
                                        "min_det": float(det.min())}))
        else:
            out.append(("_margin", {"ratio": err / bound}))
    return out


class C01Monitor:
    """Checks the C01 clauses after every op on every mineral of a world and keeps the
    reference model (copies + hashes of every snapshot ever stored) in sync."""

    def __init__(self, prop="C01"):
        self.prop = prop
        self.verdicts = []
        self.max_ratio = 0.0
        self.n_snap_checked = 0
        self.rejected = {}
        self.completed = 0
        self.attempted_clean = 0

    def v(self, clause, i, m, detail):
        self.verdicts.append({"property": self.prop, "clause": clause, "op": i, "m": m,
                              "detail": detail})

    def initial(self, world):
        for mrec in world.minerals:
            o = mrec.obj
            n = int(o.n_grains)
            if len(o.orientations) != 1 or len(o.fractions) != 1:
                self.v("count", -1, mrec.idx, {"len": [len(o.orientations), len(o.fractions)]})
                continue
            for clause, d in snapshot_checks(o.orientations[0], o.fractions[0], n, 0, 0.0):
                if clause == "_margin":
                    continue
                self.v(clause, -1, mrec.idx, d)

    def after_op(self, world, i, op, rec):
        involved = {}
        subs = rec.get("sub") or [rec]
        for r in subs:
            if r["op"] in ("update",):
                involved[r["m"]] = (r["status"], r["n_before"], r["n_after"])
            elif r["op"] == "update_all":
                if r["status"] == "ok":
                    for j, m in enumerate(r["ms"]):
                        involved[m] = ("ok", r["n_before"][j], r["n_after"][j])
                else:
                    # a failing bulk update: minerals before the failing one completed
                    for j, m in enumerate(r["ms"]):
                        involved[m] = ("bulk_raised", r["n_before"][j], r["n_after"][j])
            elif r["op"] == "restart":
                involved[r["m"]] = ("restart", None, None)
        for r in subs:
            if r["op"] == "update" and not r.get("fault"):
                self.attempted_clean += 1
                if r["status"] == "ok":
                    self.completed += 1
                else:
                    self.rejected[r["exc"]] = self.rejected.get(r["exc"], 0) + 1
        for mrec in world.minerals:
            o = mrec.obj
            n_ref = len(mrec.ref)
            nO, nF = len(o.orientations), len(o.fractions)
            st = involved.get(mrec.idx)
            expect = n_ref
            if st is not None and st[0] == "ok":
                expect = n_ref + 1
            if st is not None and st[0] == "bulk_raised":
                # either appended one (completed before the failure) or none
                if nO == nF and nO in (n_ref, n_ref + 1):
                    expect = nO
            if nO != expect or nF != expect:
                self.v("count", i, mrec.idx, {"expected": expect, "orientations": nO,
                                              "fractions": nF, "status": st and st[0]})
                mrec.sync_ref()
                continue
            # earlier snapshots immutable
            for k in range(n_ref):
                A, f, h = mrec.ref[k]
                if sha(o.orientations[k], o.fractions[k]) != h:
                    dA = float(np.nanmax(np.abs(np.asarray(o.orientations[k]) - A))) \
                        if np.shape(o.orientations[k]) == A.shape else None
                    self.v("immutable", i, mrec.idx, {"snapshot": k, "max_dA": dA})
                    break
            # validity of the new snapshot
            if expect == n_ref + 1:
                n = int(o.n_grains)
                A_new, f_new = o.orientations[-1], o.fractions[-1]
                for clause, d in snapshot_checks(A_new, f_new, n, mrec.completed, mrec.strain):
                    if clause == "_margin":
                        if mrec.diffusion_strain == 0.0 and mrec.rotation <= 6.0:
                            self.max_ratio = max(self.max_ratio, d["ratio"])
                        elif mrec.diffusion_strain == 0.0:
                            self.max_ratio_large_rotation = max(
                                getattr(self, "max_ratio_large_rotation", 0.0), d["ratio"])
                        continue
                    d = dict(d)
                    d["diffusion_strain"] = mrec.diffusion_strain
                    d["rigid_rotation_total_rad"] = mrec.rotation
                    self.v(clause, i, mrec.idx, d)
                self.n_snap_checked += 1
                # the new snapshot must not alias an earlier one
                for k in range(n_ref):
                    if o.orientations[k] is A_new or o.fractions[k] is f_new or \
                            np.shares_memory(o.orientations[k], A_new) or \
                            np.shares_memory(o.fractions[k], f_new):
                        self.v("immutable", i, mrec.idx, {"alias_of": k})
                        break
                mrec.ref.append((np.array(A_new, copy=True), np.array(f_new, copy=True),
                                 sha(A_new, f_new)))
            if st is not None and st[0] == "restart":
                mrec.sync_ref() if len(mrec.ref) != len(o.orientations) else None

"""Engine B — SimPool: a discrete-event model of the multiprocessing.Pool API.

W simulated workers take chunks from a shared queue in submission order as they become
free; every task has a simulated duration taken from the scenario (heavy-tailed, so
completion order differs from submission order), workers can stall, the feeder pulls
items from the iterable lazily.  Tasks execute the real function in-process at their
simulated start.  `imap` yields in index order (blocking advances simulated time),
`imap_unordered` in completion order, `map` returns the ordered list — the documented
guarantees of multiprocessing.Pool.  Nothing here draws from a PRNG: durations, stalls and
depths are data."""

import itertools


class _Result:
    __slots__ = ("value", "exc", "done_at", "seq", "worker")

    def __init__(self):
        self.value = None
        self.exc = None
        self.done_at = None
        self.seq = None
        self.worker = None


class SimPool:
    def __init__(self, processes=None, durations=None, stalls=None, feed_depth=None,
                 default_chunksize=1, fail_at=None, log=None):
        if processes is not None and int(processes) < 1:
            raise ValueError("Number of processes must be at least 1")  # as multiprocessing.Pool
        self.W = max(1, int(processes or 1))
        self.durations = list(durations or [1.0])
        self.stalls = dict(stalls or {})  # task index -> extra simulated time
        self.feed_depth = feed_depth  # None = eager
        self.default_chunksize = default_chunksize
        self.fail_at = fail_at  # task index whose execution raises (informational scenarios)
        self.running = True
        self.now = 0.0
        self.free_at = [0.0] * self.W
        self.task_counter = 0
        self.done_seq = itertools.count()
        self.pending = []
        self._processes = self.W  # attribute of multiprocessing.Pool that callers peek at
        self.log = log if log is not None else {}
        self.log.setdefault("calls", [])
        self.log.setdefault("completion_order", [])
        self.log.setdefault("submitted", [])
        self.log.setdefault("per_worker", [0] * self.W)
        self.log["processes"] = self.W

    # ---- context manager / lifecycle (as multiprocessing.Pool)
    def __enter__(self):
        self._check()
        return self

    def __exit__(self, *exc):
        self.terminate()
        return False

    def close(self):
        self.running = False

    def terminate(self):
        # outstanding work is abandoned: callbacks of unfinished handles never fire
        self.running = False
        self.pending = []

    def join(self):
        self._drain()

    def _check(self):
        if not self.running:
            raise ValueError("Pool not running")

    # ---- simulation core
    def _dur(self, k):
        d = self.durations[k % len(self.durations)]
        return float(d) + float(self.stalls.get(str(k), self.stalls.get(k, 0.0)))

    def _run_chunk(self, func, items, first_index, star=False):
        """Assign one chunk to the earliest-free worker; execute the real function now
        (simulated start order == submission order, see module docstring)."""
        w = min(range(self.W), key=lambda j: (self.free_at[j], j))
        start = max(self.free_at[w], 0.0)
        t = start
        results = []
        for off, item in enumerate(items):
            k = self.task_counter
            self.task_counter += 1
            r = _Result()
            r.worker = w
            self.log["submitted"].append(first_index + off)
            self.log.setdefault("items", []).append(item)
            try:
                if self.fail_at is not None and k == self.fail_at:
                    raise RuntimeError("injected task failure")
                r.value = func(*item) if star else func(item)
            except Exception as e:  # noqa: BLE001
                r.exc = e
            t += self._dur(k)
            r.done_at = t
            results.append(r)
        # a chunk's results become visible together when the chunk completes
        for r in results:
            r.done_at = t
        self.free_at[w] = t
        self.log["per_worker"][w] += len(items)
        return results

    def _chunks(self, iterable, chunksize):
        it = iter(iterable)
        idx = 0
        while True:
            chunk = list(itertools.islice(it, chunksize))
            if not chunk:
                return
            yield idx, chunk
            idx += len(chunk)

    def _finish_order(self, results):
        order = sorted(range(len(results)), key=lambda j: (results[j].done_at, j))
        return order

    # ---- API
    def imap(self, func, iterable, chunksize=None):
        self._check()
        self.log["calls"].append("imap")
        cs = chunksize or self.default_chunksize
        gen = self._chunks(iterable, cs)
        results = []
        exhausted = [False]
        depth = self.feed_depth

        def pull_until(n):
            while not exhausted[0] and len(results) < n:
                try:
                    first, chunk = next(gen)
                except StopIteration:
                    exhausted[0] = True
                    return
                results.extend(self._run_chunk(func, chunk, first))

        def iterator():
            j = 0
            while True:
                pull_until(j + 1 + (depth if depth is not None else 10 ** 9))
                if j >= len(results):
                    # everything consumed: record the completion order that was simulated
                    self.log["completion_order"] = self._finish_order(results)
                    return
                r = results[j]
                self.now = max(self.now, r.done_at)  # blocking on result j advances time
                j += 1
                if r.exc is not None:
                    raise r.exc
                yield r.value

        return iterator()

    def imap_unordered(self, func, iterable, chunksize=None):
        self._check()
        self.log["calls"].append("imap_unordered")
        cs = chunksize or self.default_chunksize
        results = []
        for first, chunk in self._chunks(iterable, cs):
            results.extend(self._run_chunk(func, chunk, first))
        order = self._finish_order(results)
        self.log["completion_order"] = order

        def iterator():
            for j in order:
                r = results[j]
                self.now = max(self.now, r.done_at)
                if r.exc is not None:
                    raise r.exc
                yield r.value

        return iterator()

    def map(self, func, iterable, chunksize=None):
        self._check()
        self.log["calls"].append("map")
        return list(self.imap(func, iterable, chunksize))

    def starmap(self, func, iterable, chunksize=None):
        self._check()
        self.log["calls"].append("starmap")
        cs = chunksize or self.default_chunksize
        results = []
        for first, chunk in self._chunks(iterable, cs):
            results.extend(self._run_chunk(func, chunk, first, star=True))
        self.log["completion_order"] = self._finish_order(results)
        out = []
        for r in results:
            if r.exc is not None:
                raise r.exc
            out.append(r.value)
        return out

    class _Async:
        """Result handle of map_async / starmap_async / apply_async.  The tasks were handed
        to the simulated workers when the call was made; the handle completes at the
        simulated time its last task completes.  Callbacks run (as in a real pool's result
        handler) in order of COMPLETION, not of submission: whenever the caller blocks on any
        handle until simulated time T, the callbacks of every outstanding handle that
        completes by T fire first, earliest completion first."""

        def __init__(self, pool, results, single, callback, error_callback):
            self.pool = pool
            self.results = results
            self.single = single
            self.callback = callback
            self.error_callback = error_callback
            self.done_at = max([r.done_at for r in results], default=pool.now)
            self.fired = False
            self.seq = next(pool.done_seq)

        def _value(self):
            for r in self.results:
                if r.exc is not None:
                    raise r.exc
            vals = [r.value for r in self.results]
            return vals[0] if self.single else vals

        def _fire(self):
            if self.fired:
                return
            self.fired = True
            self.pool.log.setdefault("async_completion_order", []).append(self.seq)
            try:
                v = self._value()
            except Exception as e:  # noqa: BLE001
                if self.error_callback is not None:
                    self.error_callback(e)
                return
            if self.callback is not None:
                self.callback(v)

        def wait(self, timeout=None):
            self.pool._advance_to(self.done_at)

        def get(self, timeout=None):
            self.pool._advance_to(self.done_at)
            return self._value()

        def ready(self):
            return self.pool.now >= self.done_at

        def successful(self):
            if not self.ready():
                raise ValueError("not ready")
            return all(r.exc is None for r in self.results)

    def _advance_to(self, t):
        """The caller blocks until simulated time t: callbacks of handles completing by then
        fire in completion order."""
        self.now = max(self.now, t)
        pend = [h for h in self.pending if not h.fired and h.done_at <= self.now]
        for h in sorted(pend, key=lambda h: (h.done_at, h.seq)):
            h._fire()
        self.pending = [h for h in self.pending if not h.fired]

    def _drain(self):
        if self.pending:
            self._advance_to(max(h.done_at for h in self.pending))

    def _submit_async(self, func, items, chunksize, star, single, callback, error_callback):
        results = []
        cs = chunksize or self.default_chunksize
        for first, chunk in self._chunks(items, cs):
            results.extend(self._run_chunk(func, chunk, first, star=star))
        h = SimPool._Async(self, results, single, callback, error_callback)
        self.pending.append(h)
        return h

    def map_async(self, func, iterable, chunksize=None, callback=None, error_callback=None):
        self._check()
        self.log["calls"].append("map_async")
        return self._submit_async(func, list(iterable), chunksize, False, False, callback,
                                  error_callback)

    def starmap_async(self, func, iterable, chunksize=None, callback=None, error_callback=None):
        self._check()
        self.log["calls"].append("starmap_async")
        return self._submit_async(func, list(iterable), chunksize, True, False, callback,
                                  error_callback)

    def apply_async(self, func, args=(), kwds=None, callback=None, error_callback=None):
        self._check()
        self.log["calls"].append("apply_async")
        kwds = kwds or {}
        return self._submit_async(lambda a: func(*a, **kwds), [tuple(args)], 1, False, True,
                                  callback, error_callback)

    def apply(self, func, args=(), kwds=None):
        return self.apply_async(func, args, kwds).get()

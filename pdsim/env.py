"""Simulator-owned environment: flows, pathlines, regime fields, initial textures.

Everything here is a pure function of the scenario JSON.  Flows are defined in
dimensionless time tau and in the *base* frame; a Transform (clock rate k, frame
rotation Q) maps them to what PyDRex sees:

    t = tau / k,    x'(t) = Q x_base(k t),    L'(t, x') = k Q L_base(k t, Q^T x') Q^T
"""

import math

import numpy as np
from scipy.spatial.transform import Rotation

I3 = np.eye(3)


# --------------------------------------------------------------------------- transform
class Transform:
    __slots__ = ("k", "Q", "QT", "has_Q")

    def __init__(self, k=1.0, Q=None):
        self.k = float(k)
        self.has_Q = Q is not None
        self.Q = np.array(Q, dtype=float) if Q is not None else I3
        self.QT = self.Q.T.copy()

    @classmethod
    def from_spec(cls, spec):
        if not spec:
            return cls()
        return cls(spec.get("k", 1.0), spec.get("Q"))

    def t_of_tau(self, tau):
        return tau / self.k


def rotation_from_spec(spec):
    """{"kind":"seed","seed":n} | {"kind":"axis","axis":i,"deg":d} | {"kind":"matrix","m":..}"""
    kind = spec["kind"]
    if kind == "seed":
        return Rotation.random(random_state=int(spec["seed"])).as_matrix()
    if kind == "axis":
        v = [0.0, 0.0, 0.0]
        v[spec["axis"]] = math.radians(spec["deg"])
        return Rotation.from_rotvec(v).as_matrix()
    if kind == "matrix":
        return np.array(spec["m"], dtype=float)
    raise ValueError(kind)


# --------------------------------------------------------------------------- flows
class Flow:
    """Base-frame, dimensionless-time velocity gradient L_base(tau, x)."""

    def __init__(self, spec):
        self.spec = spec
        self.family = spec["family"]
        self.L0 = np.array(spec.get("L0", np.zeros((3, 3))), dtype=float)
        self.L1 = np.array(spec.get("L1", np.zeros((3, 3))), dtype=float)
        self.omega = float(spec.get("omega", 0.0))
        self.phi = float(spec.get("phi", 0.0))
        G = spec.get("G")
        self.G = np.array(G, dtype=float) if G is not None else None  # (3,3,3): dL/dx_k
        self.gate = spec.get("gate")  # [a, b]: L is exactly zero for tau in [a, b]
        self._pd = None
        if self.family.startswith("pydrex_"):
            from .boot import boot

            pydrex = boot()
            if self.family == "pydrex_simple_shear":
                _, self._pd = pydrex.velocity.simple_shear_2d(
                    spec["direction"], spec["plane"], float(spec["strain_rate"])
                )
            elif self.family == "pydrex_cell":
                _, self._pd = pydrex.velocity.cell_2d(
                    spec["horizontal"],
                    spec["vertical"],
                    float(spec["velocity_edge"]),
                    float(spec.get("edge_length", 2.0)),
                )
            else:
                raise ValueError(self.family)

    @property
    def constant(self):
        return self.family in ("const", "zero", "pydrex_simple_shear")

    def base(self, tau, x):
        f = self.family
        if f == "zero":
            return np.zeros((3, 3))
        if f == "const":
            return self.L0.copy()
        if f == "periodic":
            return self.L0 + math.sin(self.omega * tau + self.phi) * self.L1
        if f == "posdep":
            L = self.L0 + math.sin(self.omega * tau + self.phi) * self.L1
            return L + np.tensordot(self.G, np.asarray(x, dtype=float), axes=([2], [0]))
        if f == "gated":
            a, b = self.gate
            if a <= tau <= b:
                return np.zeros((3, 3))
            # smooth ramps (C1) next to the gate so that integrators stay happy
            w = 0.05
            s = 1.0
            if tau < a and a - tau < w:
                u = (a - tau) / w
                s = u * u * (3 - 2 * u)
            elif tau > b and tau - b < w:
                u = (tau - b) / w
                s = u * u * (3 - 2 * u)
            return s * self.L0
        if f == "pulse":
            # compact support in time: exactly zero outside (a, b), smooth C1 bump inside
            a, b = self.gate
            if not (a < tau < b):
                return np.zeros((3, 3))
            u = (tau - a) / (b - a)
            return (16.0 * u * u * (1 - u) * (1 - u)) * self.L0
        if f == "band":
            # compact support in space: a shear band of half-width w around the plane
            # n.x = c, exactly zero outside (rigid regions on both sides)
            n = np.asarray(self.spec["n"], dtype=float)
            d = (float(n @ np.asarray(x, dtype=float)) - float(self.spec["c"])) / float(self.spec["w"])
            if not (-1.0 < d < 1.0):
                return np.zeros((3, 3))
            return ((1 - d * d) ** 2) * self.L0
        if self._pd is not None:
            return np.asarray(self._pd(tau, np.asarray(x, dtype=float)), dtype=float)
        raise ValueError(f)


# --------------------------------------------------------------------------- paths
class Path:
    """Base-frame pathline x_base(tau)."""

    def __init__(self, spec):
        self.spec = spec
        self.kind = spec["kind"]
        self.x0 = np.array(spec.get("x0", [0.0, 0.0, 0.0]), dtype=float)
        self.v = np.array(spec.get("v", [0.0, 0.0, 0.0]), dtype=float)
        self.r = float(spec.get("r", 0.0))
        self.w = float(spec.get("w", 0.0))
        self._interp = None
        if self.kind == "pydrex_pathline":
            # PyDRex's own pathline construction used as the environment: a particle of the
            # Stokes cell arriving at `final` at the end of the simulated span
            from .boot import boot

            pydrex = boot()
            u, L = pydrex.velocity.cell_2d(spec["horizontal"], spec["vertical"],
                                           float(spec["velocity_edge"]), 2.0)
            import pydrex.pathlines as _pl

            try:
                ts, interp = _pl.get_pathline(
                    np.array(spec["final"], dtype=float), u, L,
                    np.array([-1.0, -1.0, -1.0]), np.array([1.0, 1.0, 1.0]),
                    float(spec["max_strain"]),
                )
                self._t_start = float(ts[0])
                self._interp = interp
            except Exception:  # noqa: BLE001
                # get_pathline itself can fail for some end points (its terminal-event root
                # search; that is C18's business, not claimed here): deterministic fallback
                # to a particle at rest at the end point
                self.kind = "static"
                self.x0 = np.array(spec["final"], dtype=float)

    def base(self, tau):
        if self._interp is not None:
            t = min(self._t_start + max(float(tau), 0.0), 0.0)
            return np.asarray(self._interp(t), dtype=float)
        if self.kind == "static":
            return self.x0.copy()
        if self.kind == "line":
            return self.x0 + self.v * tau
        if self.kind == "circle":
            return self.x0 + self.r * np.array(
                [math.cos(self.w * tau), 0.0, math.sin(self.w * tau)]
            )
        raise ValueError(self.kind)


# --------------------------------------------------------------------------- regimes
class RegimeField:
    """{"kind":"const","r":4} | {"kind":"switch","at":tau,"r0":4,"r1":6}"""

    def __init__(self, spec, enum=None):
        self.spec = spec
        self.kind = spec["kind"]
        self.enum = enum

    def _wrap(self, r):
        if self.enum is not None and self.spec.get("as_enum", True):
            try:
                return self.enum(r)
            except ValueError:
                return r
        return r

    def base(self, tau, x):
        if self.kind == "const":
            return self._wrap(self.spec["r"])
        if self.kind == "switch":
            return self._wrap(self.spec["r0"] if tau < self.spec["at"] else self.spec["r1"])
        raise ValueError(self.kind)


# --------------------------------------------------------------------------- textures
SYM_OPS = np.array(
    [
        np.diag([1.0, 1.0, 1.0]),
        np.diag([1.0, -1.0, -1.0]),
        np.diag([-1.0, 1.0, -1.0]),
        np.diag([-1.0, -1.0, 1.0]),
    ]
)


def make_orientations(spec, n):
    kind = spec["kind"]
    seed = int(spec.get("seed", 0))
    if kind == "random":
        return Rotation.random(n, random_state=seed).as_matrix()
    if kind == "single":
        R = Rotation.random(random_state=seed).as_matrix()
        return np.repeat(R[None, :, :], n, axis=0).copy()
    if kind == "axis_aligned":
        perms = [
            np.eye(3),
            np.array([[0.0, 1, 0], [0, 0, 1], [1, 0, 0]]),
            np.array([[0.0, 0, 1], [1, 0, 0], [0, 1, 0]]),
            np.array([[0.0, -1, 0], [1, 0, 0], [0, 0, 1]]),
        ]
        rng = np.random.default_rng(seed)
        idx = rng.integers(0, len(perms), size=n)
        return np.array([perms[i] for i in idx])
    if kind == "cluster":
        rng = np.random.default_rng(seed)
        R0 = Rotation.random(random_state=seed)
        spread = float(spec.get("spread", 0.05))
        rv = rng.normal(scale=spread, size=(n, 3))
        return (Rotation.from_rotvec(rv) * R0).as_matrix()
    if kind == "girdle":
        rng = np.random.default_rng(seed)
        R0 = Rotation.random(random_state=seed)
        ang = rng.uniform(0, 2 * np.pi, size=n)
        rv = np.zeros((n, 3))
        rv[:, 2] = ang
        return (Rotation.from_rotvec(rv) * R0).as_matrix()
    if kind == "explicit":
        return np.array(spec["A"], dtype=float).reshape(n, 3, 3)
    raise ValueError(kind)


def make_fractions(spec, n):
    kind = spec["kind"]
    seed = int(spec.get("seed", 0))
    if kind == "uniform":
        return np.full(n, 1.0 / n)
    rng = np.random.default_rng(seed)
    if kind == "dirichlet":
        f = rng.dirichlet(np.full(n, float(spec.get("alpha", 1.0))))
        f = np.clip(f, 0.0, None)
        return f / f.sum()
    if kind == "dominant":
        f = np.full(n, (1.0 - float(spec.get("share", 0.9))) / max(n - 1, 1))
        f[int(rng.integers(0, n))] = float(spec.get("share", 0.9))
        return f / f.sum()
    if kind == "zeros":
        f = rng.uniform(0.1, 1.0, size=n)
        nz = max(1, int(n * float(spec.get("frac_zero", 0.3))))
        nz = min(nz, n - 1)
        f[rng.choice(n, size=nz, replace=False)] = 0.0
        return f / f.sum()
    if kind == "at_threshold":
        # a share of grains sits exactly at chi/n (exact ties at the GBS threshold)
        chi = float(spec["chi"])
        thr = chi / n
        nt = min(max(1, int(spec.get("n_tie", 1))), n - 1)
        f = np.empty(n)
        f[:nt] = thr
        f[nt:] = (1.0 - nt * thr) / (n - nt)
        perm = rng.permutation(n)
        return f[perm]
    if kind == "explicit":
        return np.array(spec["f"], dtype=float)
    raise ValueError(kind)


# --------------------------------------------------------------------------- strain
def spin_rate(L):
    """Magnitude of the rigid-rotation rate (rad per unit time) of a velocity gradient."""
    W = 0.5 * (np.asarray(L) - np.asarray(L).T)
    return float(np.sqrt(W[0, 1] ** 2 + W[0, 2] ** 2 + W[1, 2] ** 2))


def max_principal_rate(L):
    D = 0.5 * (L + L.T)
    return float(np.abs(np.linalg.eigvalsh(D)).max())

"""pdsim — deterministic simulation with fault injection for PyDRex.

See /verif/DESIGN.md.  Nothing in this package reads a wall clock or an unseeded
PRNG on any path that feeds an event log or an oracle.
"""

"""Twin worlds: the same seeded op list executed in a transformed world; histories
compared snapshot by snapshot under the transformation's mapping."""

import numpy as np

from .world import World


class Trace:
    """Per-op observation of one world: for every mineral the snapshot appended by the
    op (or None), the returned F, status, and the apply_gbs tie distance."""

    def __init__(self):
        self.ops = []

    def after_op(self, world, i, op, rec):
        ent = {"status": rec.get("status"), "exc": rec.get("exc"), "op": rec["op"], "minerals": {},
               "F_out": rec.get("F_out"), "strain": rec.get("strain", 0.0),
               "fired": rec.get("fired"), "steps": rec.get("steps"), "nL": rec.get("nL")}
        if rec["op"] == "update":
            ms = [rec["m"]]
        elif rec["op"] in ("update_all", "overlap"):
            ms = list(rec["ms"])
        else:
            ms = [rec["m"]] if "m" in rec else []
        subs = {r["m"]: r for r in rec.get("sub", [])} if rec.get("sub") else {}
        for m in ms:
            mrec = world.minerals[m]
            o = mrec.obj
            r = subs.get(m, rec)
            ok = r.get("status") == "ok"
            tie = None
            g = (r.get("gbs") or {}).get("last") if isinstance(r.get("gbs"), dict) else None
            if g is not None:
                thr = float(g["chi"]) / int(g["n"])
                tie = {"thr": thr, "f_in": g["f_in"], "mask": g["f_in"] < thr}
            ent["minerals"][m] = {
                "ok": ok,
                "A": np.array(o.orientations[-1], copy=True) if ok else None,
                "f": np.array(o.fractions[-1], copy=True) if ok else None,
                "F": np.array(r.get("F_out"), copy=True) if ok and r.get("F_out") is not None else None,
                "n": len(o.orientations), "tie": tie, "exc": r.get("exc"),
                "strain_total": mrec.strain, "completed": mrec.completed,
            }
        self.ops.append(ent)


def run_traced(world_spec, ops, scratch_dir=None):
    import shutil
    import tempfile

    tmp = None
    if scratch_dir is None and any(op["op"] == "restart" for op in ops):
        tmp = scratch_dir = tempfile.mkdtemp(prefix="pdsim_twin_")
    try:
        w = World(world_spec, scratch_dir=scratch_dir)
        tr = Trace()
        init = {m.idx: (np.array(m.obj.orientations[0], copy=True),
                        np.array(m.obj.fractions[0], copy=True)) for m in w.minerals}
        w.run(ops, after_op=tr.after_op)
    finally:
        if tmp:
            shutil.rmtree(tmp, ignore_errors=True)
    return w, tr, init


def compare_traces(trA, trB, map_A, map_F, tol_fn, prop, clause, verdicts, counters, maxima,
                   tie_factor=10.0, minerals=None, bitwise=False):
    """Compare world B against the mapped world A, op by op.

    map_A(m, A) / map_F(F): what world A's arrays should look like in world B.
    tol_fn(N, strain) -> absolute tolerance.  Comparison of a mineral stops at the first
    update in which the two worlds disagree on which grains are below the sliding threshold
    although their integrated fractions agree within tolerance (an exact tie at the
    threshold: legitimate divergence), counted as inconclusive_tie.
    """
    stopped = set()
    for i, (a, b) in enumerate(zip(trA.ops, trB.ops)):
        for m in a["minerals"]:
            if minerals is not None and m not in minerals:
                continue
            if m in stopped or m not in b["minerals"]:
                continue
            ma, mb = a["minerals"][m], b["minerals"][m]
            if ma["ok"] != mb["ok"]:
                verdicts.append({"property": prop, "clause": clause, "op": i, "m": m,
                                 "detail": {"what": "update completed in one world and raised in the other",
                                            "A": ma["exc"], "B": mb["exc"]}})
                stopped.add(m)
                continue
            if not ma["ok"]:
                counters["both_raised"] = counters.get("both_raised", 0) + 1
                continue
            tol = tol_fn(ma["completed"], ma["strain_total"])
            if not bitwise and ma["tie"] is not None and mb["tie"] is not None:
                ta, tb = ma["tie"], mb["tie"]
                if ta["mask"].shape == tb["mask"].shape and np.any(ta["mask"] != tb["mask"]):
                    g = ta["mask"] != tb["mask"]
                    gap = float(np.abs(ta["f_in"][g] - tb["f_in"][g]).max())
                    if gap <= tol:
                        # the two worlds' integrated fractions straddle the sliding threshold
                        # with a difference that is itself within tolerance: an exact tie,
                        # after which the histories may legitimately diverge
                        counters["inconclusive_tie"] = counters.get("inconclusive_tie", 0) + 1
                        stopped.add(m)
                        continue
            expA = map_A(m, ma["A"])
            dA = float(np.abs(mb["A"] - expA).max())
            df = float(np.abs(mb["f"] - ma["f"]).max())
            dF = 0.0
            if ma["F"] is not None and mb["F"] is not None:
                expF = map_F(ma["F"])
                dF = float(np.abs(mb["F"] - expF).max() / max(1.0, np.abs(expF).max()))
            counters["snapshots_compared"] = counters.get("snapshots_compared", 0) + 1
            d = max(dA, df, dF)
            if bitwise:
                if d != 0.0:
                    verdicts.append({"property": prop, "clause": clause, "op": i, "m": m,
                                     "detail": {"dA": dA, "df": df, "dF": dF, "demand": "bit-identical"}})
                    stopped.add(m)
                else:
                    counters["bit_identical"] = counters.get("bit_identical", 0) + 1
                continue
            key = clause + "_diff_over_tol"
            maxima[key] = max(maxima.get(key, 0.0), d / tol)
            if d == 0.0:
                counters["bit_identical"] = counters.get("bit_identical", 0) + 1
            if d > 1e-6:
                counters["above_rounding_level(>1e-6)"] = counters.get("above_rounding_level(>1e-6)", 0) + 1
            if not d <= tol:
                verdicts.append({"property": prop, "clause": clause, "op": i, "m": m,
                                 "detail": {"dA": dA, "df": df, "dF": dF, "tol": tol,
                                            "N": ma["completed"], "strain": ma["strain_total"]}})
                stopped.add(m)
    return stopped


def conditioning(world_spec, ops, tol_fn, eps, prop="X"):
    """Noise floor of a history: execute it again from initial textures perturbed by a
    relative `eps` (deterministic) and return max(diff / tol) over all compared snapshots.
    A history that amplifies eps beyond a fraction of the tolerance cannot decide a twin
    comparison at that tolerance (D-Rex dynamics are exponentially sensitive at high M* and
    strain): such runs are counted as ill-conditioned, not as violations."""
    import copy

    base, trA, _ = run_traced(world_spec, ops)
    spec2 = copy.deepcopy(world_spec)
    spec2["perturb"] = {"eps": eps, "seed": 12345}
    _, trB, _ = run_traced(spec2, ops)
    verdicts, counters, maxima = [], {}, {}
    compare_traces(trA, trB, lambda m, A: A, lambda F: F, tol_fn, prop, "noise", verdicts,
                   counters, maxima)
    worst = maxima.get("noise_diff_over_tol", 0.0)
    if verdicts:
        worst = max(worst, 1.0)
    return worst


def confirm_chain(scn, run, bad_of, tol_fn, prop, counters, eps=1e-9, twin_world=None):
    """Decide whether a twin discrepancy is a violation of a property that holds
    'within solver tolerance'.  A genuine violation is generic: it persists when
    (1) the solver tolerance is tightened (rtol 1e-10, then 1e-12: a trajectory passing close
    to a separatrix of the D-Rex dynamics can still end on the wrong side at 1e-10),
    (2) the initial textures of BOTH worlds get the same tiny deterministic perturbation
    (which breaks exact symmetries between grains whose numerical tie-breaking by rounding
    noise is a knife edge, not a property of the code), and
    (3) neither world amplifies such a perturbation to the tolerance (noise-floor probe).
    Returns True when the discrepancy is confirmed."""
    import copy

    s2 = scn
    for level, key in (("tight", "default_solver_outlier_not_confirmed_by_tight_solver"),
                       ("ultra", "tight_solver_outlier_not_confirmed_at_rtol_1e-12")):
        if s2["world"].get("solver", {}).get("tol") in (level, "ultra"):
            continue
        s2 = copy.deepcopy(s2)
        s2["world"]["solver"] = {"tol": level}
        if not bad_of(run(s2)):
            counters[key] = 1
            return False
    for pseed in (101, 202):
        s3 = copy.deepcopy(s2)
        s3["world"]["perturb"] = {"eps": eps, "seed": pseed}
        if not bad_of(run(s3)):
            counters["knife_edge_not_reproduced_under_perturbation"] = 1
            return False
    worlds = [s2["world"]]
    if twin_world is not None:
        worlds.append(twin_world(s2))
    for wspec in worlds:
        if conditioning(wspec, s2["ops"], tol_fn, eps, prop) > 0.1:
            counters["ill_conditioned_history_not_judged"] = 1
            return False
    counters["violation_confirmed"] = 1
    return True

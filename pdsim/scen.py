"""Shared scenario builders for Engine A properties."""

from . import gen as G


def gen_world(rng, n_minerals=None, regimes=None, allow_pydrex=True, flow_families=None,
              phases_mode=None, n_choices=None, tight_share=0.3, shared_env=False,
              allow_aligned=True, hot_gbs=False, rate=None, with_F0=True):
    """A world: paramsets, flows, paths, minerals.  By default every mineral gets its
    own flow/path/params index (minerals may share)."""
    nm = n_minerals or rng.choice([1, 1, 2, 2, 3])
    phases_choice = phases_mode or rng.choice(["ol", "en", "both", "both"])
    if phases_choice == "ol":
        plist = [0]
    elif phases_choice == "en":
        plist = [1]
    else:
        plist = rng.choice([[0, 1], [1, 0]])
    n_env = 1 if shared_env else rng.randint(1, nm)
    flows, paths, paramsets = [], [], []
    for _ in range(n_env):
        fl = G.gen_flow(rng, families=flow_families, allow_pydrex=allow_pydrex)
        flows.append(fl)
        paths.append(G.gen_path(rng, fl))
        paramsets.append(G.gen_paramset(rng, phases=plist, hot_gbs=hot_gbs))
    minerals = []
    for i in range(nm):
        ph = rng.choice(plist)
        m = G.gen_mineral(rng, phase=ph, regimes=regimes, n_choices=n_choices,
                          allow_aligned=allow_aligned)
        e = i % n_env if i < n_env else rng.randrange(n_env)
        m["flow"] = e
        m["path"] = e
        m["params"] = e
        if with_F0 and rng.random() < 0.3:
            m["F0"] = G.gen_F0(rng)
        minerals.append(m)
    k = rate if rate is not None else G.gen_rate(rng)
    return {
        "paramsets": paramsets, "flows": flows, "paths": paths, "minerals": minerals,
        "regime_fields": [],
        # documented **kwargs forwarded to the solver: tolerances, first step, step limit
        "solver": dict({"tol": "tight" if rng.random() < tight_share else "default"},
                       **({"first_step": rng.choice([0.01, 0.5, 1.0])} if rng.random() < 0.15 else {}),
                       **({"max_step": rng.choice([0.05, 0.5])} if rng.random() < 0.1 else {})),
        "transform": {"k": k},
    }


def gen_history_ops(rng, world, total=None, n_max=None, update_all_share=0.15,
                    restart_share=0.0, order="interleaved", t_offset=None):
    """Each mineral gets its own partition of [0, T_m]; the ops of all minerals are
    interleaved by the seeded scheduler (order preserved per mineral)."""
    nm = len(world["minerals"])
    # time origin: model times far from zero (geodynamic models run at t ~ 1e15 s) with steps
    # that are short relative to the absolute time; only where the environment stays in its
    # domain for large tau (autonomous / periodic flows, bounded pathlines)
    safe = all(
        (world["paths"][m["path"]]["kind"] in ("static", "circle")
         and world["flows"][m["flow"]]["family"] in ("const", "periodic", "posdep",
                                                     "pydrex_simple_shear", "pydrex_cell", "zero"))
        or world["flows"][m["flow"]]["family"] in ("const", "periodic", "pydrex_simple_shear", "zero")
        for m in world["minerals"]) and not world.get("regime_fields")
    t_off = rng.choice([0.0, 0.0, 0.0, 0.0, 3.0, 100.0, 1e4, 1e6]) if (safe and t_offset is None) \
        else (t_offset or 0.0)
    per = []
    for m in range(nm):
        T = total if total is not None else rng.choice([0.3, 1.0, 1.0, 2.0, 3.0, 6.0])
        parts = G.partition(rng, t_off, t_off + T, n_max=n_max or rng.choice([3, 6, 12, 20]))
        per.append([{"op": "update", "m": m, "t0": a, "t1": b} for a, b in parts])
    ops = []
    cursors = [0] * nm
    while any(cursors[m] < len(per[m]) for m in range(nm)):
        live = [m for m in range(nm) if cursors[m] < len(per[m])]
        if order == "sequential":
            m = live[0]
        else:
            m = rng.choice(live)
        ops.append(per[m][cursors[m]])
        cursors[m] += 1
        if restart_share and rng.random() < restart_share:
            ops.append({"op": "restart", "m": m,
                        "postfix": rng.choice([None, "a", "m_1", "7"])})
    return ops


def schedule_signature(ops):
    parts = []
    for op in ops:
        k = op["op"]
        if k == "update":
            f = op.get("fault")
            parts.append(f"u{op['m']}" + (f"!{f['kind']}" if f else ""))
        elif k == "update_all":
            parts.append("A" + "".join(str(x) for x in op["ms"]))
        elif k == "restart":
            parts.append(f"r{op['m']}")
        elif k in ("set_param", "set_fractions"):
            parts.append("P")
        elif k == "fault_sweep":
            parts.append(f"S{op['m']}!{op['kind']}")
        elif k == "overlap":
            parts.append("O" + "".join(str(x) for x in op["ms"]))
        else:
            parts.append(k)
    return ",".join(parts)

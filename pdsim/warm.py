"""JIT warm-up in the parent before forking, so that workers inherit compiled code.

Every argument-type signature of `core.derivatives` that scenarios use is compiled
here: IntEnum ordinals (normal), numpy uint8 ordinals (after `from_file`), plain ints
(override ordinals)."""

import os
import shutil
import tempfile

import numpy as np


def warm_env():
    """Compile PyDRex's own flow / pathline callables used as environment."""
    from . import env as E

    fl = E.Flow({"family": "pydrex_cell", "horizontal": "X", "vertical": "Z", "velocity_edge": 0.5})
    fl.base(0.0, np.array([0.1, 0.0, 0.2]))
    E.Flow({"family": "pydrex_simple_shear", "direction": "X", "plane": "Z",
            "strain_rate": 1.0}).base(0.0, np.array([0.1, 0.0, 0.2]))
    E.Path({"kind": "pydrex_pathline", "final": [0.3, 0.0, -0.2], "max_strain": 1.0,
            "horizontal": "X", "vertical": "Z", "velocity_edge": 0.5}).base(0.5)


def warm_world(restart=True, ints=True, regimes=(4, 6, 0, 1, 7), phases=(0, 1)):
    from .world import World

    warm_env()

    for phase in phases:
        spec = {
            "paramsets": [{"phase_assemblage": [0, 1], "phase_fractions": [0.7, 0.3],
                           "stress_exponent": 1.5, "deformation_exponent": 3.5,
                           "gbm_mobility": 125.0, "gbs_threshold": 0.3,
                           "nucleation_efficiency": 5.0}],
            "flows": [{"family": "const", "L0": [[0, 0, 2.0], [0, 0, 0], [0, 0, 0]]}],
            "paths": [{"kind": "static", "x0": [0, 0, 0]}],
            "minerals": [{"phase": phase, "fabric": 0 if phase == 0 else 5, "regime": 4,
                          "n_grains": 4, "texture": {"kind": "random", "seed": 1},
                          "volumes": {"kind": "uniform"}}],
            "regime_fields": [{"kind": "const", "r": 4}],
            "solver": {"tol": "default"}, "transform": {"k": 1.0},
        }
        tmp = tempfile.mkdtemp(prefix="pdsim_warm_")
        try:
            w = World(spec, scratch_dir=tmp)
            ops = []
            t = 0.0
            for r in regimes:
                ops.append({"op": "update", "m": 0, "t0": t, "t1": t + 0.05,
                            "override": {"regime": r}})
                t += 0.05
            ops.append({"op": "update", "m": 0, "t0": t, "t1": t + 0.05, "regime_field": 0})
            t += 0.05
            if ints:
                ops.append({"op": "update", "m": 0, "t0": t, "t1": t + 0.05,
                            "override": {"regime": 4}, "override_as_enum": False})
                t += 0.05
            if restart:
                ops.append({"op": "restart", "m": 0})
                ops.append({"op": "update", "m": 0, "t0": t, "t1": t + 0.05})
                t += 0.05
                ops.append({"op": "update", "m": 0, "t0": t, "t1": t + 0.05, "regime_field": 0})
            w.run(ops)
        finally:
            shutil.rmtree(tmp, ignore_errors=True)

"""Batch runner: seeds -> scenarios -> executions on forked workers; determinism
self-test; known findings; minimisation; replay files; evidence; exit protocol.

Exit codes: 0 held; 1 VIOLATION (unlisted); 2 harness error.
"""

import argparse
import faulthandler
import importlib
import json
import multiprocessing as mp
import os
import subprocess
import sys
import time
import traceback
from concurrent.futures import ProcessPoolExecutor, as_completed
from concurrent.futures.process import BrokenProcessPool

VERIF = os.path.dirname(os.path.dirname(os.path.abspath(__file__)))

TIERS = {
    # runs: number of scenarios; cap_s: wall cap for the exploration batch;
    # selftest: number of runs whose digests are cross-checked
    "quick": {"selftest": 32, "cap_s": 150},
    "thorough": {"selftest": 256, "cap_s": 1500},
}
DEFAULT_SEED = {"quick": 20261004, "thorough": 7052026}

_MOD = None


def _load(prop):
    return importlib.import_module(f"pdsim.props.{prop.lower()}")


def run_seed(base, prop, i):
    from .gen import seed_of

    return seed_of(base, prop, i)


# --------------------------------------------------------------------------- workers
def _exec_one(mod, seed, tier, twice=False):
    scn = mod.generate(seed, tier)
    res = mod.execute(scn)
    out = {"seed": seed, "digest": res["digest"], "verdicts": res["verdicts"],
           "stats": res["stats"]}
    if twice:
        res2 = mod.execute(mod.generate(seed, tier))
        out["digest2"] = res2["digest"]
    return out


def _run_isolated(mod, seed, tier, twice, timeout_s):
    """Execute one run in a forked child of this (warm) worker, so that every run starts
    from the same post-warm-up module state (a replay starts from that state too) and a run
    that kills its interpreter takes nobody else with it."""
    import pickle

    r, w = os.pipe()
    pid = os.fork()
    if pid == 0:  # child
        try:
            os.close(r)
            faulthandler.dump_traceback_later(timeout_s, exit=True)
            try:
                o = _exec_one(mod, seed, tier, twice=False)
            except Exception as e:  # noqa: BLE001
                o = {"seed": seed, "harness_error": f"{type(e).__name__}: {e}",
                     "trace": traceback.format_exc()[-2000:]}
            data = pickle.dumps(o, protocol=pickle.HIGHEST_PROTOCOL)
            with os.fdopen(w, "wb") as fh:
                fh.write(data)
        finally:
            os._exit(0)
    os.close(w)
    chunks = []
    with os.fdopen(r, "rb") as fh:
        while True:
            b = fh.read(1 << 20)
            if not b:
                break
            chunks.append(b)
    _, status = os.waitpid(pid, 0)
    data = b"".join(chunks)
    if not data:
        return {"seed": seed, "aborted": True, "wait_status": status}
    return pickle.loads(data)


def _iso_execute(mod, scn, timeout_s=420):
    """mod.execute(scn) in a forked child (same isolation as a batch run)."""
    import pickle

    r, w = os.pipe()
    pid = os.fork()
    if pid == 0:
        try:
            os.close(r)
            faulthandler.dump_traceback_later(timeout_s, exit=True)
            try:
                res = mod.execute(scn)
                o = {"verdicts": res["verdicts"], "digest": res["digest"]}
            except Exception as e:  # noqa: BLE001
                o = {"verdicts": [], "digest": f"ERR {type(e).__name__}: {e}", "error": True}
            with os.fdopen(w, "wb") as fh:
                fh.write(pickle.dumps(_jsonable(o)))
        finally:
            os._exit(0)
    os.close(w)
    with os.fdopen(r, "rb") as fh:
        data = fh.read()
    os.waitpid(pid, 0)
    if not data:
        return {"verdicts": [], "digest": "ABORTED", "error": True}
    return pickle.loads(data)


def _worker_chunk(args):
    prop, tier, base, idxs, twice_upto, per_run_timeout, marker_dir = args
    mod = _MOD or _load(prop)
    outs = []
    marker = os.path.join(marker_dir, f"w{os.getpid()}") if marker_dir else None
    isolate = os.environ.get("VERIF_FORK_PER_RUN", "1") != "0"
    for i in idxs:
        if marker:
            with open(marker, "w") as fh:
                fh.write(str(i))
        seed = run_seed(base, prop, i)
        if isolate:
            o = _run_isolated(mod, seed, tier, False, per_run_timeout)
            if i < twice_upto and "digest" in o:
                o2 = _run_isolated(mod, seed, tier, False, per_run_timeout)
                o["digest2"] = o2.get("digest", "ABORTED")
            o["i"] = i
            outs.append(o)
            continue
        faulthandler.dump_traceback_later(per_run_timeout, exit=True)
        try:
            try:
                o = _exec_one(mod, seed, tier, twice=i < twice_upto)
            except Exception as e:  # noqa: BLE001
                o = {"seed": seed, "harness_error": f"{type(e).__name__}: {e}",
                     "trace": traceback.format_exc()[-2000:]}
            o["i"] = i
            outs.append(o)
        finally:
            faulthandler.cancel_dump_traceback_later()
    if marker:
        with open(marker, "w") as fh:
            fh.write("")
    return outs


# --------------------------------------------------------------------------- helpers
def _jsonable(x):
    import numpy as np

    if isinstance(x, dict):
        return {str(k): _jsonable(v) for k, v in x.items()}
    if isinstance(x, (list, tuple)):
        return [_jsonable(v) for v in x]
    if isinstance(x, np.ndarray):
        return x.tolist()
    if isinstance(x, (np.floating,)):
        return float(x)
    if isinstance(x, (np.integer,)):
        return int(x)
    if isinstance(x, (np.bool_,)):
        return bool(x)
    return x


def verdict_key(v):
    return (v["property"], v["clause"])


def write_evidence(prop, data):
    os.makedirs(os.path.join(VERIF, "evidence"), exist_ok=True)
    path = os.path.join(VERIF, "evidence", f"{prop}.json")
    tmp = path + ".tmp"
    with open(tmp, "w") as f:
        json.dump(_jsonable(data), f, indent=1, sort_keys=True)
    os.replace(tmp, path)
    return path


def digests_only(prop, tier, base, n):
    """Fresh-interpreter side of the determinism self-test: print {i: digest}."""
    from .boot import boot

    boot()
    mod = _load(prop)
    if hasattr(mod, "warmup"):
        mod.warmup()
    out = {}
    for i in range(n):
        seed = run_seed(base, prop, i)
        try:
            res = mod.execute(mod.generate(seed, tier))
            out[str(i)] = res["digest"]
        except Exception as e:  # noqa: BLE001
            out[str(i)] = f"ERR {type(e).__name__}: {e}"
    sys.stdout.write("DIGESTS " + json.dumps(out) + "\n")
    sys.stdout.flush()


# --------------------------------------------------------------------------- replay
def replay(prop, path, quiet=False):
    from .boot import boot

    boot()
    with open(path) as f:
        doc = json.load(f)
    scn = doc["scenario"] if "scenario" in doc else doc
    mod = _load(scn.get("property", prop))
    if hasattr(mod, "warmup"):
        mod.warmup()  # runs of a batch start from the post-warm-up module state; so does a replay
    r1 = mod.execute(scn)
    r2 = mod.execute(scn)
    keys = sorted({verdict_key(v) for v in r1["verdicts"]})
    if not quiet:
        print(f"replay digest={r1['digest']} repeat_digest={r2['digest']}")
        for v in r1["verdicts"][:10]:
            print("  verdict", json.dumps(_jsonable(v), sort_keys=True)[:600])
    expect = doc.get("expect")
    same = r1["digest"] == r2["digest"]
    if expect:
        same = same and [list(k) for k in keys] == expect.get("keys") and \
            r1["digest"] == expect.get("digest")
    if r1["verdicts"]:
        print(f"VIOLATION property={scn.get('property', prop)} replay={path}"
              + ("" if same else " (WARNING: replay not identical to recorded run)"))
        return 1
    print("replay: no violation")
    return 0


# --------------------------------------------------------------------------- main batch
def main(argv=None):
    global _MOD
    ap = argparse.ArgumentParser(prog="check")
    ap.add_argument("prop")
    ap.add_argument("--tier", default=os.environ.get("VERIF_TIER", "quick"))
    ap.add_argument("--replay")
    ap.add_argument("--runs", type=int)
    ap.add_argument("--workers", type=int, default=int(os.environ.get("VERIF_WORKERS", "15")))
    ap.add_argument("--digests-only", type=int)
    ap.add_argument("--no-selftest", action="store_true")
    ap.add_argument("--no-evidence", action="store_true")
    ap.add_argument("--cap", type=float)
    a = ap.parse_args(argv)
    prop = a.prop.upper()
    tier = a.tier if a.tier in TIERS else "quick"
    base = int(os.environ.get("VERIF_SEED", DEFAULT_SEED[tier]))
    if a.replay:
        return replay(prop, a.replay)
    if a.digests_only is not None:
        digests_only(prop, tier, base, a.digests_only)
        return 0

    t_start = time.time()
    cfg = dict(TIERS[tier])
    from . import findings
    from .boot import REPO_SRC, boot, source_hash

    print(f"check {prop} tier={tier} VERIF_SEED={base}")
    sys.stdout.flush()
    pydrex = boot()
    mod = _load(prop)
    _MOD = mod
    n_runs = a.runs or mod.RUNS[tier]
    cap_s = a.cap or getattr(mod, "CAP_S", {}).get(tier, cfg["cap_s"])
    n_self = min(cfg["selftest"], n_runs)

    # fresh-interpreter digests (other PYTHONHASHSEED, single process) run concurrently
    st_proc = None
    if not a.no_selftest:
        env = dict(os.environ)
        env["PYTHONHASHSEED"] = str(1 + base % 4000)
        env["VERIF_SEED"] = str(base)
        st_proc = subprocess.Popen(
            [sys.executable, os.path.join(VERIF, "check"), prop, "--tier", tier,
             "--digests-only", str(n_self)],
            stdout=subprocess.PIPE, stderr=subprocess.PIPE, env=env, cwd=VERIF, text=True,
        )

    t_w = time.time()
    if hasattr(mod, "warmup"):
        mod.warmup()
    warm_s = time.time() - t_w
    supplement = None
    if hasattr(mod, "uncontrolled_supplement") and not a.no_selftest:
        try:
            supplement = mod.uncontrolled_supplement()
        except Exception as e:  # noqa: BLE001
            supplement = {"error": f"{type(e).__name__}: {e}"}
        print("  uncontrolled supplement (runtime observation, not in any digest):", supplement)
    print(f"  warm-up (import + JIT) {warm_s:.1f}s; exploring {n_runs} runs on {a.workers} workers")
    sys.stdout.flush()

    chunk = max(1, min(64, n_runs // (a.workers * 8) or 1))
    per_run_timeout = getattr(mod, "RUN_TIMEOUT_S", 420)
    results = {}
    harness_errors = []
    skipped = 0
    aborted = []
    t_batch = time.time()
    ctx = mp.get_context("fork")
    import shutil
    import tempfile

    marker_dir = tempfile.mkdtemp(prefix="pdsim_markers_")
    try:
        pending = list(range(n_runs))
        suspects = []
        breaks = 0
        while pending and breaks <= 20:
            idx_chunks = [pending[s:s + chunk] for s in range(0, len(pending), chunk)]
            broke = False
            try:
                with ProcessPoolExecutor(max_workers=a.workers, mp_context=ctx) as ex:
                    futs = {ex.submit(_worker_chunk, (prop, tier, base, c, n_self, per_run_timeout,
                                                      marker_dir)): c for c in idx_chunks}
                    for fut in as_completed(futs):
                        if fut.cancelled():
                            continue
                        for o in fut.result():
                            results[o["i"]] = o
                        if time.time() - t_batch > cap_s:
                            for f2 in futs:
                                if not f2.done() and f2.cancel():
                                    skipped += len(futs[f2])
            except BrokenProcessPool:
                broke = True
                breaks += 1
            in_flight = set()
            for fn in os.listdir(marker_dir):
                try:
                    with open(os.path.join(marker_dir, fn)) as fh:
                        v = fh.read().strip()
                    if v:
                        in_flight.add(int(v))
                    os.remove(os.path.join(marker_dir, fn))
                except (OSError, ValueError):
                    pass
            if not broke:
                break
            in_flight -= set(results)
            suspects.extend(sorted(in_flight))
            pending = [i for i in pending if i not in results and i not in in_flight]
            if time.time() - t_batch > cap_s:
                skipped += len(pending)
                pending = []
        # runs that were in flight when a worker died: one at a time, each in its own process
        for i in suspects:
            try:
                with ProcessPoolExecutor(max_workers=1, mp_context=ctx) as ex:
                    for o in ex.submit(_worker_chunk, (prop, tier, base, [i], n_self, per_run_timeout,
                                                       marker_dir)).result():
                        results[o["i"]] = o
            except BrokenProcessPool:
                aborted.append(i)
        if breaks > 20:
            harness_errors.append("worker pool broke more than 20 times")
    finally:
        shutil.rmtree(marker_dir, ignore_errors=True)
    for i in aborted:
        harness_errors.append(
            f"run {i} seed {run_seed(base, prop, i)} killed its interpreter (fatal error or "
            f"{per_run_timeout}s watchdog) -- reproduced in a process of its own; not judged")
    batch_s = time.time() - t_batch

    # ---- aggregate (by run index, never by completion order)
    counters = {}
    sigs, nontrivial_sigs, states = set(), set(), set()
    sim_strain = 0.0
    max_ratio = 0.0
    extra_max = {}
    all_verdicts = []
    samples = []
    for i in sorted(results):
        o = results[i]
        if o.get("aborted"):
            aborted.append(i)
            harness_errors.append(
                f"run {i} seed {o['seed']} killed its interpreter (fatal error or "
                f"{per_run_timeout}s watchdog; wait status {o.get('wait_status')}); not judged")
            continue
        if "harness_error" in o:
            harness_errors.append(f"run {i} seed {o['seed']}: {o['harness_error']}\n{o.get('trace','')}")
            continue
        st = o["stats"]
        for k, v in st.get("counters", {}).items():
            counters[k] = counters.get(k, 0) + v
        sigs.add(st.get("sig"))
        if st.get("nontrivial"):
            nontrivial_sigs.add(st.get("sig"))
        states.update(st.get("states", []))
        sim_strain += st.get("sim_strain", 0.0)
        max_ratio = max(max_ratio, st.get("max_ratio", 0.0))
        for k, v in st.get("maxima", {}).items():
            extra_max[k] = max(extra_max.get(k, 0.0), v)
        for v in o["verdicts"]:
            all_verdicts.append((i, o["seed"], v))
        if "digest2" in o and o["digest2"] != o["digest"]:
            harness_errors.append(f"determinism: run {i} seed {o['seed']} differs when "
                                  f"executed twice in one process")
    n_done = len([o for o in results.values() if "harness_error" not in o and not o.get("aborted")])

    # ---- fresh interpreter comparison
    selftest = {"same_seed_twice_in_forked_children": n_self if not harness_errors else "see errors",
                "fresh_interpreter_other_hashseed": 0}
    if st_proc is not None:
        try:
            out, err = st_proc.communicate(timeout=max(600, cap_s))
        except subprocess.TimeoutExpired:
            st_proc.kill()
            out, err = "", "timeout"
        line = [ln for ln in out.splitlines() if ln.startswith("DIGESTS ")]
        if not line:
            harness_errors.append("determinism self-test subprocess produced no digests: "
                                  + (err or "")[-800:])
        else:
            other = json.loads(line[-1][8:])
            n_cmp = 0
            for k, d in other.items():
                i = int(k)
                if i in results and "digest" in results[i]:
                    n_cmp += 1
                    if results[i]["digest"] != d:
                        harness_errors.append(
                            f"determinism: run {i} digest differs in a fresh interpreter "
                            f"({results[i]['digest'][:12]} vs {d[:24]})")
            selftest["fresh_interpreter_other_hashseed"] = n_cmp

    # ---- classify verdicts
    known = [] if os.environ.get("VERIF_IGNORE_KNOWN") else findings.load()
    known_hits = {}
    unknown = []
    for i, seed, v in all_verdicts:
        scn = None
        e = findings.match(v, scn, known)
        if e is not None:
            known_hits.setdefault(e["id"], []).append((i, seed))
        else:
            unknown.append((i, seed, v))
    for e in known:
        if e["id"] in known_hits:
            print(f"KNOWN-FINDING: property={e['property']} {e['what']} "
                  f"[{e['id']}; seen in {len(known_hits[e['id']])} verdicts this run]")
        else:
            if e["property"] == prop:
                print(f"KNOWN-FINDING: property={e['property']} {e['what']} "
                      f"[{e['id']}; not reached by this run's seeds]")

    # ---- coverage floor
    floor_msg = None
    if hasattr(mod, "coverage_floor"):
        floor_msg = mod.coverage_floor(counters, n_done)
        if floor_msg:
            harness_errors.append("coverage floor: " + floor_msg)

    # ---- violations: minimise, write replay, double replay
    replay_paths = []
    reported = set()
    for i, seed, v in unknown:
        key = verdict_key(v)
        if key in reported or len(reported) >= 3:
            continue
        reported.add(key)
        scn = mod.generate(seed, tier)
        path = _minimise_and_write(mod, prop, scn, v, seed, known)
        replay_paths.append(path)
        print(f"VIOLATION property={prop} replay={path}")
        print("  clause=%s first_detail=%s" % (v["clause"], json.dumps(_jsonable(v["detail"]))[:400]))

    wall = time.time() - t_start
    # ---- samples for the evidence
    for i in sorted(results)[:3]:
        if "harness_error" in results[i] or results[i].get("aborted"):
            continue
        scn = mod.generate(results[i]["seed"], tier)
        samples.append({"run": i, "seed": results[i]["seed"], "digest": results[i]["digest"],
                        "scenario": _trim_sample(scn)})
    rate = n_done / batch_s * 3600 if batch_s > 0 else 0
    coverage = {
        "evaluations": n_done,
        "distinct_nontrivial": len(nontrivial_sigs),
        "rule": getattr(mod, "RULE", ""),
        "samples": samples,
        "distinct_schedule_signatures": len(sigs),
        "distinct_abstract_states": len(states),
        "counters": counters,
        "simulated_time": {"accumulated_strain": sim_strain,
                           "update_calls": counters.get("update_calls", 0)},
        "runs_per_hour": rate,
        "runs_skipped_by_wall_cap": skipped,
        "runs_that_killed_their_interpreter": len(aborted),
        "determinism_selftest": selftest,
        "components": getattr(mod, "COMPONENTS", {}),
        "uncontrolled_supplement": supplement,
        "tolerance_margin": {"max_observed_over_bound": max_ratio, **extra_max},
        "known_findings_seen": {k: len(v) for k, v in known_hits.items()},
        "pydrex_src": REPO_SRC, "pydrex_src_hash": source_hash(),
        "harness_errors": harness_errors[:5],
        "zero_probes": sorted(k for k in getattr(mod, "PROBES", []) if not counters.get(k)),
    }
    evidence = {
        "property_id": prop, "tier": tier, "seed": base, "level": mod.LEVEL,
        "coverage": coverage,
        "assumptions": getattr(mod, "ASSUMPTIONS", []),
        "wall_s": wall, "violations": len(reported),
    }
    if not a.no_evidence:
        write_evidence(prop, evidence)
    print(f"  runs={n_done} skipped={skipped} distinct_sigs={len(sigs)} nontrivial={len(nontrivial_sigs)} "
          f"states={len(states)} strain={sim_strain:.1f} rate={rate:.0f}/h wall={wall:.0f}s "
          f"max_ratio={max_ratio:.3f}")
    for k in sorted(counters):
        print(f"    {k}: {counters[k]}")
    if extra_max:
        print("    maxima:", json.dumps(extra_max, sort_keys=True))
    if coverage["zero_probes"]:
        print("  WARNING probes at zero:", coverage["zero_probes"])
    if reported:
        return 1
    if harness_errors:
        for h in harness_errors[:10]:
            print("HARNESS-ERROR:", h)
        return 2
    print(f"OK property={prop} held on everything explored")
    return 0


def _trim_sample(scn):
    s = json.loads(json.dumps(_jsonable(scn)))
    if isinstance(s.get("ops"), list) and len(s["ops"]) > 12:
        s["ops"] = s["ops"][:12] + [f"... {len(s['ops']) - 12} more ops"]
    return s


def _minimise_and_write(mod, prop, scn, verdict, seed, known):
    from . import findings
    from .shrink import minimise

    key = verdict_key(verdict)

    def still_fails(c):
        r = _iso_execute(mod, c)
        for v in r["verdicts"]:
            if verdict_key(v) == key and findings.match(v, c, known) is None:
                return True
        return False

    small = scn
    used = 0
    if hasattr(mod, "shrink_candidates"):
        try:
            small, used = minimise(scn, still_fails, mod.shrink_candidates,
                                   budget=getattr(mod, "SHRINK_BUDGET", 200))
        except Exception:  # noqa: BLE001
            small = scn
    r = _iso_execute(mod, small)
    r2 = _iso_execute(mod, small)
    keys = sorted({verdict_key(v) for v in r["verdicts"]})
    doc = {
        "property": prop, "seed": seed, "minimisation_executions": used,
        "original_ops": len(scn.get("ops", [])), "minimised_ops": len(small.get("ops", [])),
        "expect": {"keys": [list(k) for k in keys], "digest": r["digest"]},
        "replays_identically": r["digest"] == r2["digest"],
        "verdicts": _jsonable(r["verdicts"][:5]),
        "scenario": _jsonable(small),
    }
    rdir = os.environ.get("VERIF_REPLAY_DIR") or os.path.join(VERIF, "replays")
    os.makedirs(rdir, exist_ok=True)
    path = os.path.join(rdir, f"{prop}-{seed}-{key[1]}.json")
    with open(path, "w") as f:
        json.dump(doc, f, indent=1)
    return path

"""Seeded scenario generation (swarm style).  Draws only from the `random.Random`
instance handed in; produces plain JSON-able dicts."""

import math
import random

OLIVINE, ENSTATITE = 0, 1
FABRICS_OL = [0, 1, 2, 3, 4]
FABRIC_EN = 5
R_MINV, R_MDIFF, R_BDIFF, R_SDIFF, R_MDISL, R_SDISL, R_YIELD, R_MAXV = range(8)
ACCEPTED_DISL = [R_MDISL, R_YIELD]
UNSUPPORTED = [R_BDIFF, R_SDIFF, R_SDISL]


def rnd_matrix(rng, scale=1.0):
    return [[rng.uniform(-1, 1) * scale for _ in range(3)] for _ in range(3)]


def simple_shear(rng):
    i, j = rng.sample(range(3), 2)
    L = [[0.0] * 3 for _ in range(3)]
    L[i][j] = 2.0 * rng.choice([1.0, -1.0])
    return L


def pure_shear(rng):
    i, j = rng.sample(range(3), 2)
    L = [[0.0] * 3 for _ in range(3)]
    L[i][i] = 1.0
    L[j][j] = -1.0
    return L


def axisym(rng):
    i = rng.randrange(3)
    s = rng.choice([1.0, -1.0])
    L = [[0.0] * 3 for _ in range(3)]
    for k in range(3):
        L[k][k] = -0.5 * s
    L[i][i] = 1.0 * s
    return L


def general3d(rng, traceless=None):
    L = rnd_matrix(rng)
    if traceless is None:
        traceless = rng.random() < 0.6
    if traceless:
        tr = (L[0][0] + L[1][1] + L[2][2]) / 3
        for k in range(3):
            L[k][k] -= tr
    return L


def normalise_rate(L, target=1.0):
    """Scale so that max |eig D| == target (keeps strain bookkeeping simple)."""
    import numpy as np

    A = np.array(L)
    D = 0.5 * (A + A.T)
    m = float(np.abs(np.linalg.eigvalsh(D)).max())
    if m < 1e-12:
        return L
    return (A * (target / m)).tolist()


def gen_L(rng, kinds=None):
    kinds = kinds or ["simple", "pure", "axisym", "general", "general", "vortical"]
    k = rng.choice(kinds)
    if k == "simple":
        L = simple_shear(rng)
    elif k == "pure":
        L = pure_shear(rng)
    elif k == "axisym":
        L = axisym(rng)
    elif k == "vortical":
        L = general3d(rng)
        w = rng.uniform(0.5, 3.0)
        i, j = rng.sample(range(3), 2)
        L[i][j] += w
        L[j][i] -= w
    else:
        L = general3d(rng)
    return normalise_rate(L, rng.choice([1.0, 1.0, 0.5, 0.25]))


def gen_flow(rng, families=None, allow_pydrex=True):
    fams = families or (["const"] * 5 + ["periodic"] * 2 + ["posdep"] * 2 + ["rotdom"] +
                        (["pydrex_simple_shear", "pydrex_cell"] if allow_pydrex else []))
    fam = rng.choice(fams)
    if fam == "const":
        return {"family": "const", "L0": gen_L(rng)}
    if fam == "periodic":
        return {"family": "periodic", "L0": gen_L(rng),
                "L1": normalise_rate(general3d(rng), rng.uniform(0.1, 0.6)),
                "omega": rng.uniform(0.3, 6.0), "phi": rng.uniform(0, 6.28)}
    if fam == "posdep":
        G = [[[rng.uniform(-0.3, 0.3) for _ in range(3)] for _ in range(3)] for _ in range(3)]
        return {"family": "posdep", "L0": gen_L(rng),
                "L1": normalise_rate(general3d(rng), rng.uniform(0.0, 0.4)),
                "omega": rng.uniform(0.3, 4.0), "phi": rng.uniform(0, 6.28), "G": G}
    if fam == "pydrex_simple_shear":
        d, p = rng.sample(["X", "Y", "Z"], 2)
        return {"family": "pydrex_simple_shear", "direction": d, "plane": p,
                "strain_rate": rng.choice([0.5, 1.0, 0.25])}
    if fam == "pydrex_cell":
        h, v = rng.sample(["X", "Y", "Z"], 2)
        return {"family": "pydrex_cell", "horizontal": h, "vertical": v,
                "velocity_edge": rng.uniform(0.3, 1.0), "edge_length": 2.0}
    if fam == "zero":
        return {"family": "zero"}
    if fam == "rotdom":
        # rotation-dominated flow (a vortex core): rigid spin of order one plus a small strain
        # rate, NOT rescaled to unit strain rate -- tiny strain increments per update while the
        # aggregate turns through a large angle
        w = [rng.uniform(-1, 1) for _ in range(3)]
        nw = math.sqrt(sum(x * x for x in w)) or 1.0
        mag = rng.choice([0.5, 1.5, 3.0])
        w = [x * mag / nw for x in w]
        W = [[0.0, -w[2], w[1]], [w[2], 0.0, -w[0]], [-w[1], w[0], 0.0]]
        D = normalise_rate(general3d(rng, traceless=True), rng.choice([1e-4, 5e-4, 2e-3, 1e-2]))
        import numpy as _np

        Dm = _np.array(D)
        Dm = 0.5 * (Dm + Dm.T)
        return {"family": "const", "L0": (_np.array(W) + Dm).tolist(), "rotation_dominated": True}
    if fam == "rotation":
        # rigid rotation: antisymmetric L, zero strain rate
        w = [rng.uniform(-2, 2) for _ in range(3)]
        return {"family": "const", "L0": [[0.0, -w[2], w[1]], [w[2], 0.0, -w[0]], [-w[1], w[0], 0.0]],
                "rigid_rotation": True}
    if fam == "pulse":
        a = rng.uniform(0.05, 0.6)
        return {"family": "pulse", "L0": normalise_rate(gen_L(rng), rng.choice([1.0, 2.0, 4.0])),
                "gate": [a, a + rng.uniform(0.2, 1.0)]}
    if fam == "band":
        ax = rng.randrange(3)
        n = [0.0, 0.0, 0.0]
        n[ax] = 1.0
        return {"family": "band", "L0": normalise_rate(gen_L(rng), rng.choice([1.0, 2.0, 4.0])),
                "n": n, "c": rng.uniform(-0.2, 0.2), "w": rng.uniform(0.1, 0.4), "axis": ax}
    if fam == "gated":
        a = rng.uniform(0.0, 1.0)
        return {"family": "gated", "L0": gen_L(rng), "gate": [a, a + rng.uniform(0.1, 0.8)]}
    raise ValueError(fam)


def gen_path(rng, flow):
    """Pathline spec.  For PyDRex's Stokes cell the path must stay inside the cell
    (|x_i| <= 1 for edge length 2) over any horizon the generators use (tau <= 10)."""
    if flow["family"] in ("posdep", "pydrex_cell"):
        k = rng.choice(["line", "circle", "static"])
    else:
        k = rng.choice(["static", "static", "line"])
    if flow["family"] == "band":
        # a particle crossing the band: starts in the rigid region on one side
        ax = flow["axis"]
        side = rng.choice([-1.0, 1.0])
        x0 = [rng.uniform(-0.3, 0.3) for _ in range(3)]
        x0[ax] = flow["c"] - side * (flow["w"] + rng.uniform(0.05, 0.3))
        v = [rng.uniform(-0.05, 0.05) for _ in range(3)]
        v[ax] = side * rng.uniform(0.4, 1.5)
        return {"kind": "line", "x0": x0, "v": v}
    inside = flow["family"] == "pydrex_cell"
    if inside and rng.random() < 0.4:
        # pydrex.pathlines.get_pathline through the same cell (position in the cell's plane)
        idx = {"X": 0, "Y": 1, "Z": 2}
        final = [0.0, 0.0, 0.0]
        final[idx[flow["horizontal"]]] = rng.uniform(-0.7, 0.7)
        final[idx[flow["vertical"]]] = rng.uniform(-0.7, 0.7)
        return {"kind": "pydrex_pathline", "final": final, "max_strain": rng.choice([1.0, 2.5, 5.0]),
                "horizontal": flow["horizontal"], "vertical": flow["vertical"],
                "velocity_edge": flow["velocity_edge"]}
    x0 = [rng.uniform(-0.5, 0.5) for _ in range(3)]
    if k == "static":
        return {"kind": "static", "x0": x0}
    if k == "line":
        vmax = 0.04 if inside else 0.1
        return {"kind": "line", "x0": x0, "v": [rng.uniform(-vmax, vmax) for _ in range(3)]}
    return {"kind": "circle", "x0": x0, "r": rng.uniform(0.05, 0.3), "w": rng.uniform(0.2, 2.0)}


def gen_paramset(rng, phases=None, hot_gbs=False):
    if phases is None:
        phases = rng.choice([[0], [0], [1], [0, 1], [1, 0], [0, 1]])
    if len(phases) == 1:
        fr = [1.0]
    else:
        a = rng.choice([0.7, 0.5, 0.3, rng.uniform(0.05, 0.95), rng.uniform(0.05, 0.95), 1.0, 0.0])
        fr = [a, 1.0 - a]
    mob = rng.choice([0.0, 10.0, 50.0, 125.0, 200.0, rng.uniform(0, 200)])
    chi = rng.choice([0.0, 0.1, 0.3, 0.5, 0.9, rng.uniform(0, 0.9)])
    if hot_gbs:
        mob = rng.choice([125.0, 200.0, rng.uniform(50, 200)])
        chi = rng.choice([0.1, 0.3, 0.5, 0.7, 0.9, 0.0, rng.uniform(0, 0.9)])
    return {
        "phase_assemblage": phases,
        "phase_fractions": fr,
        "stress_exponent": rng.choice([1.5, 1.0, 2.0, rng.uniform(1, 2)]),
        "deformation_exponent": rng.choice([3.5, 2.0, 5.0, rng.uniform(2, 5)]),
        "gbm_mobility": mob,
        "gbs_threshold": chi,
        "nucleation_efficiency": rng.choice([5.0, 0.0, 1.0, 10.0, rng.uniform(0, 10)]),
        "assemblage_as": rng.choice(["list", "tuple"]),
    }


def gen_texture(rng, allow_aligned=True):
    kinds = ["random"] * 5 + ["single", "cluster", "cluster", "girdle"]
    if allow_aligned:
        kinds.append("axis_aligned")
    k = rng.choice(kinds)
    spec = {"kind": k, "seed": rng.randrange(1 << 30)}
    if k == "cluster":
        spec["spread"] = rng.choice([0.01, 0.05, 0.2])
    return spec


def gen_volumes(rng, chi=None):
    k = rng.choice(["uniform"] * 4 + ["dirichlet"] * 3 + ["dominant", "zeros"])
    spec = {"kind": k, "seed": rng.randrange(1 << 30)}
    if k == "dirichlet":
        spec["alpha"] = rng.choice([0.1, 1.0, 100.0])
    if k == "dominant":
        spec["share"] = rng.choice([0.5, 0.9, 0.99])
    if k == "zeros":
        spec["frac_zero"] = rng.choice([0.1, 0.3, 0.6])
    return spec


def gen_mineral(rng, phase=None, regimes=None, n_choices=None, allow_aligned=True):
    if phase is None:
        phase = rng.choice([OLIVINE, OLIVINE, ENSTATITE])
    fabric = rng.choice(FABRICS_OL) if phase == OLIVINE else FABRIC_EN
    regimes = regimes or ([R_MDISL] * 6 + [R_YIELD] * 2)
    n = rng.choice(n_choices or [2, 3, 4, 5, 8, 8, 13, 16, 32, 64])
    return {
        "phase": phase, "fabric": fabric, "regime": rng.choice(regimes), "n_grains": n,
        "texture": gen_texture(rng, allow_aligned), "volumes": gen_volumes(rng),
    }


def gen_F0(rng):
    """A starting deformation gradient with positive determinant."""
    import numpy as np
    from scipy.linalg import expm

    M = np.array(rnd_matrix(rng, 0.5))
    return expm(M).tolist()


def partition(rng, t0, t1, n_max=12, style=None):
    """Partition [t0, t1] into drawn intervals; returns list of (a, b)."""
    style = style or rng.choice(["uniform", "geometric", "random", "tiny_mix", "single"])
    if style == "single":
        return [(t0, t1)]
    n = rng.randint(1, n_max)
    if style == "uniform":
        cuts = [t0 + (t1 - t0) * i / n for i in range(n + 1)]
    elif style == "geometric":
        r = rng.uniform(1.2, 2.5)
        w = [r ** i for i in range(n)]
        if rng.random() < 0.5:
            w.reverse()
        s = sum(w)
        cuts = [t0]
        for x in w:
            cuts.append(cuts[-1] + (t1 - t0) * x / s)
    elif style == "random":
        inner = sorted(rng.uniform(t0, t1) for _ in range(n - 1))
        cuts = [t0] + inner + [t1]
    else:  # tiny_mix: some very short intervals among normal ones
        w = [rng.choice([1.0, 1.0, 1e-3, 1e-5]) for _ in range(n)]
        s = sum(w)
        cuts = [t0]
        for x in w:
            cuts.append(cuts[-1] + (t1 - t0) * x / s)
    cuts[-1] = t1
    # intervals must stay well above floating-point resolution of the absolute time (they are
    # later divided by the clock rate k): relative length >= 1e-9, else merged into the next
    min_len = 1e-9 * max(1.0, abs(t0), abs(t1))
    kept = [cuts[0]]
    for c in cuts[1:-1]:
        if c - kept[-1] >= min_len and cuts[-1] - c >= min_len:
            kept.append(c)
    kept.append(cuts[-1])
    out = [(kept[i], kept[i + 1]) for i in range(len(kept) - 1) if kept[i + 1] - kept[i] >= min_len]
    return out or [(t0, t1)]


def gen_rate(rng):
    """Clock rate k: dimensionless order one, laboratory or geological."""
    c = rng.random()
    if c < 0.4:
        return 1.0
    if c < 0.6:
        return 2.0 ** rng.randint(-53, 9)
    return 10 ** rng.uniform(-16, 3)


def seed_of(*parts):
    import hashlib

    return int.from_bytes(hashlib.sha256("/".join(str(p) for p in parts).encode()).digest()[:8], "big")


def rng_of(*parts):
    return random.Random(seed_of(*parts))

"""Engine A — the texture world.

Real `pydrex.Mineral` objects advanced through model time by a scenario's op list.
The simulator owns: the environment callables, the partition of time, the
interleaving, the fault instants, the LSODA class seam, the apply_gbs seam and the
derivatives seam.  Executing a scenario draws from no PRNG.
"""

import copy
import hashlib
import threading

import numpy as np
import scipy.linalg as sla

from . import env as E
from .boot import boot

pydrex = None
_tls = threading.local()
_seams_installed = False
_real = {}


class InjectedFault(Exception):
    """Raised by the simulator inside a collaborator callback."""


class InjectedBaseFault(BaseException):
    """Like InjectedFault but not an Exception subclass (what a KeyboardInterrupt-like
    asynchronous exception delivered inside a callback looks like to the library)."""


def _make_exc(name, msg):
    return {
        "InjectedFault": InjectedFault, "KeyError": KeyError, "FloatingPointError": FloatingPointError,
        "StopIteration": StopIteration, "ValueError": ValueError, "RuntimeError": RuntimeError,
        "MemoryError": MemoryError, "InjectedBaseFault": InjectedBaseFault,
    }.get(name or "InjectedFault", InjectedFault)(msg)


class HarnessError(Exception):
    """The simulator itself misbehaved (never reported as pass or violation)."""


class StepBudgetExceeded(Exception):
    """An update needed more solver steps / callback calls than any run may take
    (bounds every simulated run; such an update counts as rejected)."""


MAX_SOLVER_STEPS = 30_000
MAX_CALLBACK_CALLS = 150_000
MAX_RUN_CALLBACK_CALLS = 400_000


# --------------------------------------------------------------------------- seams
def install_seams():
    """Rebind module attributes PyDRex looks up at call time.  Pass-through unless a
    per-thread plan/recorder is active."""
    global pydrex, _seams_installed
    pydrex = boot()
    if _seams_installed:
        return
    import pydrex.core as pcore
    import pydrex.minerals as pmin
    import pydrex.utils as putils

    real_gbs = putils.apply_gbs
    real_lsoda = pmin.LSODA
    real_deriv = pcore.derivatives
    _real.update(gbs=real_gbs, lsoda=real_lsoda, deriv=real_deriv)

    def gbs_seam(orientations, fractions, gbs_threshold, orientations_prev, n_grains):
        rec = getattr(_tls, "gbs_rec", None)
        if rec is None:
            return real_gbs(
                orientations, fractions, gbs_threshold, orientations_prev, n_grains
            )
        entry = {
            "A_in": np.array(orientations, copy=True),
            "f_in": np.array(fractions, copy=True),
            "chi": gbs_threshold,
            "A_prev": np.array(orientations_prev, copy=True),
            "A_prev_id": id(orientations_prev),
            "n": n_grains,
        }
        out = real_gbs(
            orientations, fractions, gbs_threshold, orientations_prev, n_grains
        )
        entry["A_out"] = np.array(out[0], copy=True)
        entry["f_out"] = np.array(out[1], copy=True)
        rec["n_calls"] = rec.get("n_calls", 0) + 1
        rec["last"] = entry
        if rec.get("keep_all"):
            rec.setdefault("all", []).append(entry)
        return out

    class SimLSODA(real_lsoda):
        """LSODA whose step count is visible and which can be told to fail."""

        def __init__(self, *a, **kw):
            super().__init__(*a, **kw)
            self._sim_steps = 0
            self._sim_plan = getattr(_tls, "solver_plan", None)
            cnt = getattr(_tls, "solver_count", None)
            if cnt is not None:
                cnt["made"] = cnt.get("made", 0) + 1

        def step(self):
            plan = self._sim_plan
            if plan is not None and not plan["fired"] and self._sim_steps == plan["at_step"]:
                plan["fired"] = True
                self.status = "failed"
                return "injected solver failure"
            if self._sim_steps >= MAX_SOLVER_STEPS:
                raise StepBudgetExceeded(f"more than {MAX_SOLVER_STEPS} solver steps in one update")
            msg = super().step()
            self._sim_steps += 1
            cnt = getattr(_tls, "solver_count", None)
            if cnt is not None:
                cnt["steps"] = cnt.get("steps", 0) + 1
            return msg

    def deriv_seam(*a, **kw):
        rec = getattr(_tls, "deriv_rec", None)
        out = real_deriv(*a, **kw)
        if rec is not None:
            rec["n"] = rec.get("n", 0) + 1
            if rec["n"] % rec.get("every", 97) == rec.get("phase", 0):
                rec.setdefault("calls", []).append(
                    (
                        {k: (np.array(v, copy=True) if isinstance(v, np.ndarray) else v)
                         for k, v in kw.items()},
                        tuple(np.array(o, copy=True) for o in out),
                    )
                )
        return out

    putils.apply_gbs = gbs_seam
    pmin.LSODA = SimLSODA
    pcore.derivatives = deriv_seam
    _seams_installed = True


class FaultyParams(dict):
    """A params dict in which one key disappears after a number of reads."""

    def __init__(self, base, key, after_reads, plan):
        super().__init__(base)
        self._key = key
        self._after = after_reads
        self._reads = 0
        self._plan = plan

    def __getitem__(self, k):
        if k == self._key:
            if self._reads >= self._after:
                self._plan["fired"] = True
                raise KeyError(k)
            self._reads += 1
        return super().__getitem__(k)


class CountingParams(dict):
    def __init__(self, base):
        super().__init__(base)
        self.reads = {}

    def __getitem__(self, k):
        self.reads[k] = self.reads.get(k, 0) + 1
        return super().__getitem__(k)


# --------------------------------------------------------------------------- callbacks
class Callbacks:
    """Instrumented collaborator callables for one update call."""

    def __init__(self, flow, path, tr, regime_field=None, fault=None, baton=None, who=None):
        self.flow = flow
        self.path = path
        self.tr = tr
        self.regime_field = regime_field
        self.fault = fault or {}
        self.baton = baton
        self.who = who
        self.nL = 0
        self.nP = 0
        self.nR = 0
        self.fired = False
        self.fired_at = None
        self.steps_at_fire = None
        self.made_at_fire = None
        self.saw_nonzero_L = False

    def _yield(self, site):
        if self.baton is not None:
            self.baton.yield_point(self.who, site)

    def _fire(self):
        self.fired = True
        cnt = getattr(_tls, "solver_count", None)
        self.steps_at_fire = cnt.get("steps", 0) if cnt else None
        self.made_at_fire = cnt.get("made", 0) if cnt else None

    def pos(self, t):
        self._yield("P")
        i = self.nP
        self.nP += 1
        f = self.fault
        if f.get("kind") == "position_raises" and i == f["at_call"]:
            self._fire()
            raise _make_exc(f.get("exc"), "position_raises")
        tr = self.tr
        x = self.path.base(tr.k * t)
        if tr.has_Q:
            x = tr.Q @ x
        return x

    def L(self, t, x):
        self._yield("L")
        i = self.nL
        self.nL += 1
        if i >= MAX_CALLBACK_CALLS:
            raise StepBudgetExceeded(f"more than {MAX_CALLBACK_CALLS} velocity-gradient calls in one update")
        f = self.fault
        kind = f.get("kind")
        if kind == "L_raises" and i == f["at_call"]:
            self._fire()
            raise _make_exc(f.get("exc"), "L_raises")
        tr = self.tr
        if tr.has_Q:
            Lb = self.flow.base(tr.k * t, tr.QT @ np.asarray(x, dtype=float))
            Lp = tr.k * (tr.Q @ Lb @ tr.QT)
        else:
            Lp = tr.k * self.flow.base(tr.k * t, x)
        if not self.saw_nonzero_L and np.any(Lp):
            self.saw_nonzero_L = True
        if kind == "L_malformed" and i >= f["at_call"]:
            self._fire()
            shape = f.get("shape", "2x2")
            if shape == "2x2":
                return Lp[:2, :2].copy()
            if shape == "vec":
                return Lp.ravel()[:3].copy()
            if shape == "none":
                return None
            return Lp.tolist()
        if kind == "L_nonfinite" and i >= f["at_call"]:
            self._fire()
            Lp = Lp.copy()
            Lp[f.get("i", 0), f.get("j", 1)] = float(f.get("value", "nan"))
            return Lp
        return Lp

    def regime(self, t, x):
        self._yield("R")
        i = self.nR
        self.nR += 1
        f = self.fault
        kind = f.get("kind")
        if kind == "regime_raises" and i == f["at_call"]:
            self._fire()
            raise _make_exc(f.get("exc"), "regime_raises")
        if kind == "regime_unsupported" and i >= f["at_call"]:
            self._fire()
            return f["value"]
        return self.regime_field.base(self.tr.k * t, x)


# --------------------------------------------------------------------------- world
def sha(*arrays):
    h = hashlib.sha256()
    for a in arrays:
        a = np.ascontiguousarray(a)
        h.update(str(a.dtype).encode())
        h.update(str(a.shape).encode())
        h.update(a.tobytes())
    return h.hexdigest()


class MineralRec:
    def __init__(self, idx, spec, obj, F0):
        self.idx = idx
        self.spec = spec
        self.obj = obj
        self.F = F0
        self.ref = []  # reference-model copies of every snapshot: (A, f, sha)
        self.completed = 0  # completed updates
        self.strain = 0.0  # accumulated strain (reference model)
        self.rotation = 0.0  # accumulated rigid rotation angle (rad)
        self.frozen_regime = spec["regime"]
        self.restored = False
        self.diffusion_strain = 0.0  # strain accumulated in matrix_diffusion regime
        self.sync_ref()

    def sync_ref(self):
        o = self.obj
        self.ref = [
            (np.array(A, copy=True), np.array(f, copy=True), sha(A, f))
            for A, f in zip(o.orientations, o.fractions)
        ]
        self.ids = (id(o.orientations), id(o.fractions))


def build_params(ps):
    p = pydrex.DefaultParams().as_dict()
    p["phase_assemblage"] = [pydrex.MineralPhase(x) for x in ps["phase_assemblage"]]
    p["phase_fractions"] = [float(x) for x in ps["phase_fractions"]]
    p["stress_exponent"] = float(ps["stress_exponent"])
    p["deformation_exponent"] = float(ps["deformation_exponent"])
    p["gbm_mobility"] = float(ps["gbm_mobility"])
    p["gbs_threshold"] = float(ps["gbs_threshold"])
    p["nucleation_efficiency"] = float(ps["nucleation_efficiency"])
    if ps.get("assemblage_as") == "tuple":
        p["phase_assemblage"] = tuple(p["phase_assemblage"])
        p["phase_fractions"] = tuple(p["phase_fractions"])
    return p


def _enum_or_raw(enum, v):
    try:
        return enum(v)
    except ValueError:
        return v


class World:
    def __init__(self, spec, scratch_dir=None):
        install_seams()
        self.spec = spec
        self.tr = E.Transform.from_spec(spec.get("transform"))
        self.flows = [E.Flow(f) for f in spec["flows"]]
        self.paths = [E.Path(p) for p in spec["paths"]]
        self.paramsets = [build_params(p) for p in spec["paramsets"]]
        self.regime_fields = [
            E.RegimeField(r, pydrex.DeformationRegime) for r in spec.get("regime_fields", [])
        ]
        self.solver = spec.get("solver", {"tol": "default"})
        self.scratch_dir = scratch_dir
        self.minerals = []
        for i, ms in enumerate(spec["minerals"]):
            self.minerals.append(self._make_mineral(i, ms))
        self.log = []
        self.stats = {}
        self.truncated_at = None

    # ---- construction
    def _make_mineral(self, idx, ms):
        n = int(ms["n_grains"])
        phase = _enum_or_raw(pydrex.MineralPhase, ms["phase"])
        fabric = _enum_or_raw(pydrex.MineralFabric, ms["fabric"])
        regime = _enum_or_raw(pydrex.DeformationRegime, ms["regime"])
        if ms.get("ctor") == "default":
            obj = pydrex.Mineral(
                phase=phase, fabric=fabric, regime=regime, n_grains=n, seed=int(ms["seed"])
            )
            if self.tr.has_Q:
                obj.orientations[0] = obj.orientations[0] @ self.tr.QT
        else:
            A = E.make_orientations(ms["texture"], n)
            sym = ms["texture"].get("sym")
            if sym is not None:
                A = np.einsum("gij,gjk->gik", E.SYM_OPS[np.array(sym)], A)
            if self.tr.has_Q:
                A = A @ self.tr.QT
            f = E.make_fractions(ms["volumes"], n)
            if ms.get("share_init_with") is not None and ms["share_init_with"] < len(self.minerals):
                # built from the very same array objects as another mineral (a driver creating
                # several minerals from one initial texture)
                src = self.minerals[ms["share_init_with"]].obj
                if src.orientations[0].shape == A.shape:
                    A, f = src.orientations[0], src.fractions[0]
            pert = self.spec.get("perturb")
            if pert:
                # conditioning probe: a deterministic perturbation of relative size eps
                from scipy.spatial.transform import Rotation

                prng = np.random.default_rng(int(pert.get("seed", 0)) + idx)
                rv = prng.normal(size=(n, 3))
                rv *= float(pert["eps"]) / np.linalg.norm(rv, axis=1, keepdims=True)
                A = np.einsum("gij,gjk->gik", Rotation.from_rotvec(rv).as_matrix(), A)
                f = f * (1.0 + float(pert["eps"]) * prng.uniform(-1, 1, size=n))
                f = f / f.sum()
            obj = pydrex.Mineral(
                phase=phase,
                fabric=fabric,
                regime=regime,
                n_grains=n,
                fractions_init=f,
                orientations_init=A if ms.get("share_init_with") is not None else np.ascontiguousarray(A),
            )
        F0 = np.array(ms.get("F0", np.eye(3)), dtype=float)
        if self.tr.has_Q:
            F0 = self.tr.Q @ F0 @ self.tr.QT
        return MineralRec(idx, ms, obj, F0)

    def solver_kwargs(self):
        kw = {}
        if self.solver.get("tol") == "tight":
            kw["rtol"] = 1e-10
            kw["atol"] = 1e-12
        elif self.solver.get("tol") == "ultra":
            kw["rtol"] = 1e-12
            kw["atol"] = 1e-14
        fs = self.solver.get("first_step")
        if fs is not None:
            kw["first_step_frac"] = fs
        ms = self.solver.get("max_step")
        if ms is not None:
            kw["max_step_frac"] = ms
        return kw

    # ---- reference model pieces
    def L_tilde(self, flow, path, tau):
        """Frame-transformed dimensionless velocity gradient along the path."""
        Lb = flow.base(tau, path.base(tau))
        if self.tr.has_Q:
            return self.tr.Q @ Lb @ self.tr.QT
        return Lb

    def strain_over(self, flow, path, tau0, tau1):
        if flow.constant:
            return abs(tau1 - tau0) * E.max_principal_rate(flow.base(tau0, path.base(tau0)))
        n = 32
        ts = np.linspace(tau0, tau1, 2 * n + 1)
        v = np.array([E.max_principal_rate(flow.base(t, path.base(t))) for t in ts])
        h = (tau1 - tau0) / (2 * n)
        return abs(h / 3 * (v[0] + v[-1] + 4 * v[1:-1:2].sum() + 2 * v[2:-1:2].sum()))

    def rotation_over(self, flow, path, tau0, tau1):
        n = 1 if flow.constant else 16
        ts = np.linspace(tau0, tau1, n + 1)
        v = [E.spin_rate(flow.base(t, path.base(t))) for t in ts]
        return abs(tau1 - tau0) * float(np.mean(v))

    def ref_F(self, flow, path, tau0, tau1, F_in):
        """Independent high-accuracy integration of dF/dtau = L~(tau) F."""
        if flow.constant and (path.kind == "static" or flow.family != "posdep"):
            Lt = self.L_tilde(flow, path, tau0)
            return sla.expm(Lt * (tau1 - tau0)) @ F_in
        from scipy.integrate import solve_ivp

        def rhs(tau, y):
            return (self.L_tilde(flow, path, tau) @ y.reshape(3, 3)).ravel()

        sol = solve_ivp(
            rhs, (tau0, tau1), np.asarray(F_in, dtype=float).ravel(), method="DOP853",
            rtol=1e-11, atol=1e-13,
        )
        if not sol.success:
            raise HarnessError("reference integrator failed: " + str(sol.message))
        return sol.y[:, -1].reshape(3, 3)

    def trace_integral(self, flow, path, tau0, tau1):
        if flow.constant:
            return (tau1 - tau0) * float(np.trace(flow.base(tau0, path.base(tau0))))
        n = 64
        ts = np.linspace(tau0, tau1, 2 * n + 1)
        v = np.array([np.trace(flow.base(t, path.base(t))) for t in ts])
        h = (tau1 - tau0) / (2 * n)
        return h / 3 * (v[0] + v[-1] + 4 * v[1:-1:2].sum() + 2 * v[2:-1:2].sum())

    # ---- op execution
    def _env_indices(self, op, mrec):
        ms = mrec.spec
        return (
            op.get("flow", ms.get("flow", 0)),
            op.get("path", ms.get("path", 0)),
            op.get("params", ms.get("params", 0)),
            op.get("regime_field", ms.get("regime_field")),
        )

    def _call_update(self, obj, params, F_in, cb, t0, t1, use_regime, kwargs):
        kw = dict(kwargs)
        fsf = kw.pop("first_step_frac", None)
        if fsf is not None:
            kw["first_step"] = abs(t1 - t0) * fsf
        msf = kw.pop("max_step_frac", None)
        if msf is not None:
            kw["max_step"] = abs(t1 - t0) * msf
        return obj.update_orientations(
            params,
            F_in,
            cb.L,
            (t0, t1, cb.pos),
            get_regime=cb.regime if use_regime else None,
            **kw,
        )

    def _params_for_call(self, qi):
        """The params dict handed to PyDRex.  Normally the world's own dict object (as a
        driver script would reuse one dict); with `fresh_params_per_call` an equal but newly
        built dict for every call (results must not depend on dict identity or on what an
        earlier call saw in a dict with the same id)."""
        p = self.paramsets[qi]
        if self.spec.get("permute_calls_seed") is not None and len(p["phase_assemblage"]) > 1:
            # the driver reverses the phase list and the fraction list of this dict together,
            # in place, before a seeded subset of the calls (same composition, other order)
            if not hasattr(self, "_perm_rng"):
                import random as _random
                self._perm_rng = _random.Random(int(self.spec["permute_calls_seed"]))
                self._perm_state = {}
            if self._perm_rng.random() < 0.5:
                p["phase_assemblage"] = p["phase_assemblage"][::-1]
                p["phase_fractions"] = p["phase_fractions"][::-1]
                self._perm_state[qi] = not self._perm_state.get(qi, False)
                self.perm_flips = getattr(self, "perm_flips", 0) + 1
        if self.spec.get("fresh_params_per_call"):
            q = dict(p)
            q["phase_assemblage"] = type(p["phase_assemblage"])(p["phase_assemblage"])
            q["phase_fractions"] = type(p["phase_fractions"])(p["phase_fractions"])
            return q
        return p

    def do_set_fractions(self, i, op):
        """Harness action: the driver rewrites the phase fractions of a params dict in place
        between calls (composition changing along a pathline)."""
        p = self.paramsets[op["params"]]
        fr = [float(x) for x in op["fractions"]]
        if getattr(self, "_perm_state", {}).get(op["params"], False):
            fr = fr[::-1]
        p["phase_fractions"] = type(p["phase_fractions"])(fr)
        return {"i": i, "op": "set_fractions", "params": op["params"], "status": "ok", "exc": None,
                "fault": None}

    def _F_in(self, mrec, op):
        return (mrec.F if op.get("F_from") is None else self.minerals[op["F_from"]].F).copy()

    def dry_run(self, mrec, op):
        """Execute the update on a deep copy of the mineral (the never-faulted twin)
        to learn callback/step counts and the fault-free outcome."""
        fi, pi, qi, ri = self._env_indices(op, mrec)
        twin = copy.deepcopy(mrec.obj)
        cb = Callbacks(self.flows[fi], self.paths[pi], self.tr,
                       self.regime_fields[ri] if ri is not None else None)
        params = CountingParams(self.paramsets[qi])
        _tls.solver_count = cnt = {}
        _tls.solver_plan = None
        t0, t1 = self.tr.t_of_tau(op["t0"]), self.tr.t_of_tau(op["t1"])
        try:
            F = self._call_update(twin, params, self._F_in(mrec, op), cb, t0, t1,
                                  ri is not None, self.solver_kwargs())
            ok = True
            exc = None
        except Exception as e:  # noqa: BLE001
            F = None
            ok = False
            exc = type(e).__name__
        finally:
            _tls.solver_count = None
        return {
            "ok": ok, "exc": exc, "F": F, "twin": twin,
            "nL": cb.nL, "nP": cb.nP, "nR": cb.nR, "steps": cnt.get("steps", 0),
            "reads": dict(params.reads),
        }

    def do_update(self, i, op, baton=None):
        mrec = self.minerals[op["m"]]
        obj = mrec.obj
        fi, pi, qi, ri = self._env_indices(op, mrec)
        flow, path = self.flows[fi], self.paths[pi]
        fault = copy.deepcopy(op.get("fault")) if op.get("fault") else None
        rec = {"i": i, "op": "update", "m": op["m"], "t0": op["t0"], "t1": op["t1"],
               "fault": fault["kind"] if fault else None}
        dry = None
        if fault is not None and fault.get("placement", "mod") == "mod":
            dry = op.get("_dry") or self.dry_run_for(mrec, op)
            rec["dry"] = {k: dry[k] for k in ("ok", "exc", "nL", "nP", "nR", "steps")}
            rec["dry_twin"] = dry["twin"]
            rec["dry_F"] = dry["F"]
            kind = fault["kind"]
            N = {"L_raises": dry["nL"], "L_malformed": dry["nL"], "L_nonfinite": dry["nL"],
                 "position_raises": dry["nP"], "regime_raises": dry["nR"],
                 "regime_unsupported": dry["nR"], "solver_failed": dry["steps"],
                 "params_key_missing": dry["reads"].get(fault.get("key"), 0)}.get(kind)
            if N:
                if kind == "params_key_missing":
                    fault["after_reads"] = fault["at_call"] % N
                elif kind == "solver_failed":
                    fault["at_step"] = fault["at_call"] % N
                else:
                    fault["at_call"] = fault["at_call"] % N
            rec["fault_at"] = fault.get("at_call", fault.get("at_step"))
        # configuration overrides (regime / fabric / phase set on the object for this call)
        saved = {}
        for attr in ("regime", "fabric", "phase"):
            if attr in op.get("override", {}):
                saved[attr] = getattr(obj, attr)
                enum = {"regime": pydrex.DeformationRegime, "fabric": pydrex.MineralFabric,
                        "phase": pydrex.MineralPhase}[attr]
                v = op["override"][attr]
                setattr(obj, attr, _enum_or_raw(enum, v) if op.get("override_as_enum", True) else v)
        params = self._params_for_call(qi)
        plan = None
        if fault is not None:
            kind = fault["kind"]
            if kind == "params_key_missing":
                plan = {"fired": False}
                params = FaultyParams(params, fault["key"], fault.get("after_reads", 0), plan)
            elif kind == "solver_failed":
                plan = {"at_step": fault.get("at_step", 0), "fired": False}
            elif kind == "phase_not_in_assemblage":
                params = dict(params)
                other = [p for p in (pydrex.MineralPhase.olivine, pydrex.MineralPhase.enstatite)
                         if p != obj.phase]
                params["phase_assemblage"] = other[:1]
                params["phase_fractions"] = [1.0]
                plan = {"fired": True}
        use_regime = ri is not None or (fault is not None and fault["kind"] in
                                        ("regime_raises", "regime_unsupported"))
        rf = self.regime_fields[ri] if ri is not None else None
        if use_regime and rf is None:
            rf = E.RegimeField({"kind": "const", "r": int(obj.regime)}, pydrex.DeformationRegime)
        cb = Callbacks(flow, path, self.tr, rf, fault, baton, op["m"])
        n_before = (len(obj.orientations), len(obj.fractions))
        regime_before = obj.regime
        F_in = self._F_in(mrec, op)
        gbs_rec = {"keep_all": bool(op.get("gbs_keep_all"))}
        _tls.gbs_rec = gbs_rec
        _tls.solver_plan = plan if (fault and fault["kind"] == "solver_failed") else None
        _tls.solver_count = cnt = {}
        if op.get("record_derivs"):
            _tls.deriv_rec = drec = {"every": op["record_derivs"], "phase": op.get("deriv_phase", 0)}
        else:
            _tls.deriv_rec = drec = None
        t0, t1 = self.tr.t_of_tau(op["t0"]), self.tr.t_of_tau(op["t1"])
        try:
            # PyDRex gets its own copy: the reference model keeps the F that was handed in even
            # if the library modifies its argument in place
            F_out = self._call_update(obj, params, F_in.copy(), cb, t0, t1, use_regime,
                                      self.solver_kwargs())
            rec["status"] = "ok"
            rec["exc"] = None
        except (InjectedFault, InjectedBaseFault) as e:
            F_out = None
            rec["status"] = "raised"
            rec["exc"] = type(e).__name__
            rec["msg"] = str(e)
        except Exception as e:  # noqa: BLE001
            F_out = None
            rec["status"] = "raised"
            rec["exc"] = type(e).__name__
            rec["msg"] = str(e)[:200]
        finally:
            _tls.gbs_rec = None
            _tls.solver_plan = None
            _tls.solver_count = None
            _tls.deriv_rec = None
        rec["regime_after"] = obj.regime
        for attr, v in saved.items():
            setattr(obj, attr, v)
        if "regime" not in saved and use_regime and op.get("restore_regime", False):
            obj.regime = regime_before
        fired = cb.fired or bool(plan and plan.get("fired"))
        rec.update(
            F_in=F_in, F_out=None if F_out is None else np.array(F_out, copy=True),
            n_before=n_before, n_after=(len(obj.orientations), len(obj.fractions)),
            nL=cb.nL, nP=cb.nP, nR=cb.nR, steps=cnt.get("steps", 0), fired=fired,
            fired_in_loop=bool(fired and ((cb.made_at_fire or 0) > 0 or
                                          (plan is not None and cnt.get("made", 0) > 0))),
            steps_at_fire=cb.steps_at_fire,
            gbs=gbs_rec, derivs=drec, flow=fi, path=pi, params=qi, regime_field=ri,
            L_nonzero_seen=cb.saw_nonzero_L,
            regime_used=regime_before if not use_regime else rec["regime_after"],
        )
        if rec["status"] == "ok":
            mrec.F = np.array(F_out, copy=True)
            mrec.completed += 1
            eps = self.strain_over(flow, path, op["t0"], op["t1"])
            mrec.strain += eps
            mrec.rotation += self.rotation_over(flow, path, op["t0"], op["t1"])
            rec["strain"] = eps
            if self._diffusive(rec, use_regime, rf, op):
                mrec.diffusion_strain += eps
                rec["diffusive"] = True
        return rec

    def _regimes_in(self, rf, tau0, tau1):
        sp = rf.spec
        if sp["kind"] == "const":
            return {int(sp["r"])}
        out = set()
        if tau0 < sp["at"]:
            out.add(int(sp["r0"]))
        if tau1 >= sp["at"]:
            out.add(int(sp["r1"]))
        return out

    def _diffusive(self, rec, use_regime, rf, op):
        md = int(pydrex.DeformationRegime.matrix_diffusion)
        try:
            if use_regime and rf is not None:
                return md in self._regimes_in(rf, op["t0"], op["t1"])
            return int(rec["regime_used"]) == md
        except Exception:  # noqa: BLE001
            return False

    def do_update_all(self, i, op):
        ms = [self.minerals[j] for j in op["ms"]]
        lead = ms[0] if op.get("F_from") is None else self.minerals[op["F_from"]]
        fi, pi, qi, ri = self._env_indices(op, ms[0])
        flow, path = self.flows[fi], self.paths[pi]
        rf = self.regime_fields[ri] if ri is not None else None
        fault = copy.deepcopy(op.get("fault")) if op.get("fault") else None
        if fault is not None and fault.get("placement", "mod") == "mod":
            # instants are counted over the whole bulk call (all minerals share the callables):
            # dry-run the bulk call on deep copies to learn the number of callback calls
            twins = [copy.deepcopy(m.obj) for m in ms]
            cb0 = Callbacks(flow, path, self.tr, rf)
            t0d, t1d = self.tr.t_of_tau(op["t0"]), self.tr.t_of_tau(op["t1"])
            kwd = dict(self.solver_kwargs())
            fsfd = kwd.pop("first_step_frac", None)
            if fsfd is not None:
                kwd["first_step"] = abs(t1d - t0d) * fsfd
            msfd = kwd.pop("max_step_frac", None)
            if msfd is not None:
                kwd["max_step"] = abs(t1d - t0d) * msfd
            try:
                pydrex.update_all(twins, self.paramsets[qi], lead.F.copy(), cb0.L, (t0d, t1d, cb0.pos),
                                  get_regime=cb0.regime if rf is not None else None, **kwd)
            except Exception:  # noqa: BLE001
                pass
            N = {"L_raises": cb0.nL, "position_raises": cb0.nP}.get(fault["kind"], cb0.nL)
            if N:
                fault["at_call"] = fault["at_call"] % N
        cb = Callbacks(flow, path, self.tr, rf, fault)
        F_in = lead.F.copy()
        n_before = [(len(m.obj.orientations), len(m.obj.fractions)) for m in ms]
        regimes_before = {m.idx: m.obj.regime for m in ms}
        rec = {"i": i, "op": "update_all", "ms": list(op["ms"]), "t0": op["t0"], "t1": op["t1"],
               "fault": fault["kind"] if fault else None}
        t0, t1 = self.tr.t_of_tau(op["t0"]), self.tr.t_of_tau(op["t1"])
        kw = dict(self.solver_kwargs())
        fsf = kw.pop("first_step_frac", None)
        if fsf is not None:
            kw["first_step"] = abs(t1 - t0) * fsf
        msf = kw.pop("max_step_frac", None)
        if msf is not None:
            kw["max_step"] = abs(t1 - t0) * msf
        _tls.solver_count = cnt = {}
        try:
            F_out = pydrex.update_all(
                [m.obj for m in ms], self._params_for_call(qi), F_in.copy(), cb.L, (t0, t1, cb.pos),
                get_regime=cb.regime if rf is not None else None, **kw,
            )
            rec["status"] = "ok"
            rec["exc"] = None
        except (Exception, InjectedBaseFault) as e:  # noqa: BLE001
            F_out = None
            rec["status"] = "raised"
            rec["exc"] = type(e).__name__
            rec["msg"] = str(e)[:200]
        finally:
            _tls.solver_count = None
        rec.update(F_in=F_in, F_out=None if F_out is None else np.array(F_out, copy=True),
                   n_before=n_before,
                   n_after=[(len(m.obj.orientations), len(m.obj.fractions)) for m in ms],
                   nL=cb.nL, nP=cb.nP, nR=cb.nR, steps=cnt.get("steps", 0), fired=cb.fired,
                   flow=fi, path=pi, params=qi, regime_field=ri, L_nonzero_seen=cb.saw_nonzero_L)
        if rec["status"] != "ok":
            # minerals updated before the failing one have completed their update
            eps = self.strain_over(flow, path, op["t0"], op["t1"])
            md = int(pydrex.DeformationRegime.matrix_diffusion)
            for m, nb in zip(ms, n_before):
                if len(m.obj.orientations) == nb[0] + 1 and len(m.obj.fractions) == nb[1] + 1:
                    m.completed += 1
                    m.strain += eps
                    m.rotation += self.rotation_over(flow, path, op["t0"], op["t1"])
                    if (rf is None and int(regimes_before[m.idx]) == md) or (
                            rf is not None and md in self._regimes_in(rf, op["t0"], op["t1"])):
                        m.diffusion_strain += eps
        if rec["status"] == "ok":
            eps = self.strain_over(flow, path, op["t0"], op["t1"])
            rec["strain"] = eps
            rot = self.rotation_over(flow, path, op["t0"], op["t1"])
            for m in ms:
                m.F = np.array(F_out, copy=True)
                m.completed += 1
                m.strain += eps
                m.rotation += rot
                md = int(pydrex.DeformationRegime.matrix_diffusion)
                if (rf is None and int(regimes_before[m.idx]) == md) or (
                        rf is not None and md in self._regimes_in(rf, op["t0"], op["t1"])):
                    m.diffusion_strain += eps
        return rec

    def do_restart(self, i, op):
        """Checkpoint one mineral through the store, drop it, reconstruct it."""
        import os

        mrec = self.minerals[op["m"]]
        if self.scratch_dir is None:
            raise HarnessError("restart op needs a scratch dir")
        fn = os.path.join(self.scratch_dir, f"ckpt_{i}_{op['m']}.npz")
        pf = op.get("postfix")
        rec = {"i": i, "op": "restart", "m": op["m"], "fault": None}
        try:
            mrec.obj.save(fn, pf)
            new = pydrex.Mineral.from_file(fn, pf)
            rec["status"] = "ok"
            rec["exc"] = None
        except Exception as e:  # noqa: BLE001
            rec["status"] = "raised"
            rec["exc"] = type(e).__name__
            rec["msg"] = str(e)[:200]
            return rec
        finally:
            try:
                os.remove(fn)
            except OSError:
                pass
        rec["n_before"] = (len(mrec.obj.orientations), len(mrec.obj.fractions))
        rec["n_after"] = (len(new.orientations), len(new.fractions))
        rec["same_bytes"] = all(
            np.array_equal(a, b) for a, b in zip(new.orientations, mrec.obj.orientations)
        ) and all(np.array_equal(a, b) for a, b in zip(new.fractions, mrec.obj.fractions))
        mrec.obj = new
        mrec.restored = True
        mrec.ids = (id(new.orientations), id(new.fractions))
        return rec

    FAULT_COUNT_KEY = {"L_raises": "nL", "L_malformed": "nL", "L_nonfinite": "nL",
                       "position_raises": "nP", "regime_raises": "nR",
                       "regime_unsupported": "nR", "solver_failed": "steps"}

    def do_fault_sweep(self, i, op):
        """Inject the fault at every instant (or `max` evenly spread instants) of one
        update, one after the other on the same mineral: a failed update must leave the
        mineral untouched, so the next injection starts from the same state."""
        mrec = self.minerals[op["m"]]
        base = {k: v for k, v in op.items() if k not in ("op", "kind", "max", "fault_extra")}
        base["op"] = "update"
        kind = op["kind"]
        if kind in ("regime_raises", "regime_unsupported") and base.get("regime_field") is None \
                and mrec.spec.get("regime_field") is None:
            pass  # do_update supplies a constant regime field for these kinds
        probe = dict(base)
        if kind in ("regime_raises", "regime_unsupported"):
            probe["fault"] = {"kind": kind, "at_call": 10 ** 9, "placement": "abs",
                              **op.get("fault_extra", {})}
            # a never-firing fault so that the dry run also passes get_regime
        dry = self.dry_run_for(mrec, probe)
        if kind == "params_key_missing":
            N = dry["reads"].get(op["fault_extra"]["key"], 0)
        else:
            N = dry[self.FAULT_COUNT_KEY[kind]]
        cap = int(op.get("max", 64))
        if N <= cap:
            instants = list(range(N))
        else:
            instants = sorted({(j * N) // cap for j in range(cap)} | {N - 1})
        rec = {"i": i, "op": "fault_sweep", "m": op["m"], "kind": kind, "N": N,
               "instants": len(instants), "sub": [], "status": "swept", "exc": None,
               "dry": {k: dry[k] for k in ("ok", "exc", "nL", "nP", "nR", "steps")},
               "dry_twin": dry["twin"], "dry_F": dry["F"], "fault": kind}
        for j in instants:
            o = dict(base)
            f = {"kind": kind, "placement": "abs", **op.get("fault_extra", {})}
            if kind == "params_key_missing":
                f["after_reads"] = j
            elif kind == "solver_failed":
                f["at_step"] = j
            else:
                f["at_call"] = j
            o["fault"] = f
            if kind in ("regime_raises", "regime_unsupported"):
                o["restore_regime"] = True
            r = self.do_update(i, o)
            r["fault_at"] = j
            r["dry_twin"] = dry["twin"]
            r["dry_F"] = dry["F"]
            r["dry"] = rec["dry"]
            rec["sub"].append(r)
        return rec

    def dry_run_for(self, mrec, op):
        f = op.get("fault")
        if f and f["kind"] in ("regime_raises", "regime_unsupported"):
            # dry run with get_regime passed (constant field of the mineral's own regime)
            fi, pi, qi, ri = self._env_indices(op, mrec)
            if ri is None:
                twin = copy.deepcopy(mrec.obj)
                rf = E.RegimeField({"kind": "const", "r": int(mrec.obj.regime)},
                                   pydrex.DeformationRegime)
                cb = Callbacks(self.flows[fi], self.paths[pi], self.tr, rf)
                params = CountingParams(self.paramsets[qi])
                _tls.solver_count = cnt = {}
                _tls.solver_plan = None
                t0, t1 = self.tr.t_of_tau(op["t0"]), self.tr.t_of_tau(op["t1"])
                try:
                    F = self._call_update(twin, params, self._F_in(mrec, op), cb, t0, t1, True,
                                          self.solver_kwargs())
                    ok, exc = True, None
                except Exception as e:  # noqa: BLE001
                    F, ok, exc = None, False, type(e).__name__
                finally:
                    _tls.solver_count = None
                return {"ok": ok, "exc": exc, "F": F, "twin": twin, "nL": cb.nL, "nP": cb.nP,
                        "nR": cb.nR, "steps": cnt.get("steps", 0), "reads": dict(params.reads)}
        return self.dry_run(mrec, op)

    def run_op(self, i, op):
        kind = op["op"]
        if kind == "fault_sweep":
            rec = self.do_fault_sweep(i, op)
        elif kind == "update":
            rec = self.do_update(i, op)
        elif kind == "update_all":
            rec = self.do_update_all(i, op)
        elif kind == "restart":
            rec = self.do_restart(i, op)
        elif kind == "set_fractions":
            rec = self.do_set_fractions(i, op)
        elif kind == "set_param":
            # harness action: the driver changes one parameter of a params dict between calls
            self.paramsets[op["params"]][op["key"]] = float(op["value"])
            rec = {"i": i, "op": "set_param", "params": op["params"], "key": op["key"],
                   "status": "ok", "exc": None, "fault": None}
        elif kind == "overlap":
            from .overlap import do_overlap

            rec = do_overlap(self, i, op)
        else:
            raise HarnessError(f"unknown op {kind}")
        self.log.append(rec)
        return rec

    def run(self, ops, after_op=None):
        """Execute the op list.  A run is bounded in work, not in wall time: once the updates
        of this world have made more than MAX_RUN_CALLBACK_CALLS velocity-gradient calls the
        remaining ops are not executed (self.truncated_at records where), so that one long,
        finely partitioned tight-solver history cannot run into the per-run watchdog."""
        work = 0
        for i, op in enumerate(ops):
            rec = self.run_op(i, op)
            if after_op is not None:
                after_op(self, i, op, rec)
            for r in (rec.get("sub") or [rec]):
                work += int(r.get("nL") or 0)
            if work > MAX_RUN_CALLBACK_CALLS and i + 1 < len(ops):
                self.truncated_at = i + 1
                break
        return self.log

    # ---- digest of everything observable
    def digest(self):
        h = hashlib.sha256()
        for rec in self.log:
            subs = rec.get("sub") or [rec]
            h.update(f"{rec['i']}|{rec['op']}|{rec.get('status')}|{rec.get('exc')}|".encode())
            for r in subs:
                h.update(f"{r.get('status')}|{r.get('exc')}|{r.get('nL')}|{r.get('nP')}|"
                         f"{r.get('nR')}|{r.get('steps')}|{r.get('fired')}|".encode())
                if r.get("F_out") is not None:
                    h.update(np.ascontiguousarray(r["F_out"]).tobytes())
        for m in self.minerals:
            for A, f in zip(m.obj.orientations, m.obj.fractions):
                h.update(np.ascontiguousarray(A).tobytes())
                h.update(np.ascontiguousarray(f).tobytes())
            h.update(f"{int(m.obj.phase)}|{int(m.obj.fabric)}|{int(m.obj.regime)}|".encode())
        return h.hexdigest()

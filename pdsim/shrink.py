"""Minimisation of failing scenarios (delta debugging over the scenario JSON)."""

import copy


def _drop_chunks(ops):
    n = len(ops)
    size = max(n // 2, 1)
    while size >= 1:
        for start in range(0, n, size):
            cand = ops[:start] + ops[start + size:]
            if cand and len(cand) < n:
                yield cand
        if size == 1:
            break
        size //= 2


def generic_world_candidates(scn):
    """Smaller variants of an Engine A scenario, simplest first."""
    ops = scn["ops"]
    # 1. drop ops
    for cand in _drop_chunks(ops):
        s = copy.deepcopy(scn)
        s["ops"] = copy.deepcopy(cand)
        yield s
    # 2. drop faults from ops
    for i, op in enumerate(ops):
        if op.get("fault"):
            s = copy.deepcopy(scn)
            del s["ops"][i]["fault"]
            yield s
    # 3. drop minerals that no op touches / keep only one mineral
    w = scn["world"]
    nm = len(w["minerals"])
    if nm > 1:
        for keep in range(nm):
            s = copy.deepcopy(scn)
            new_ops = []
            ok = True
            for op in s["ops"]:
                if op["op"] in ("update", "restart"):
                    if op["m"] != keep:
                        continue
                    op["m"] = 0
                    new_ops.append(op)
                elif op["op"] in ("update_all", "overlap"):
                    ok = False
                    break
            if ok and new_ops:
                s["world"]["minerals"] = [s["world"]["minerals"][keep]]
                s["ops"] = new_ops
                yield s
    # 4. merge adjacent updates of the same mineral
    for i in range(len(ops) - 1):
        a, b = ops[i], ops[i + 1]
        if a["op"] == b["op"] == "update" and a["m"] == b["m"] and not a.get("fault") \
                and not b.get("fault") and a["t1"] == b["t0"]:
            s = copy.deepcopy(scn)
            s["ops"][i]["t1"] = b["t1"]
            del s["ops"][i + 1]
            yield s
    # 5. simplify world pieces
    if w.get("transform", {}).get("k", 1.0) != 1.0:
        s = copy.deepcopy(scn)
        s["world"]["transform"]["k"] = 1.0
        yield s
    if w.get("solver", {}).get("tol") != "default":
        s = copy.deepcopy(scn)
        s["world"]["solver"] = {"tol": "default"}
        yield s
    for i, f in enumerate(w["flows"]):
        if f["family"] not in ("const", "zero"):
            s = copy.deepcopy(scn)
            s["world"]["flows"][i] = {"family": "const", "L0": f.get("L0") or
                                      [[0, 0, 2.0], [0, 0, 0], [0, 0, 0]]}
            yield s
        elif f["family"] == "const":
            simple = [[0.0, 0.0, 2.0], [0.0, 0.0, 0.0], [0.0, 0.0, 0.0]]
            if f["L0"] != simple:
                s = copy.deepcopy(scn)
                s["world"]["flows"][i] = {"family": "const", "L0": simple}
                yield s
    for i, p in enumerate(w["paths"]):
        if p["kind"] != "static":
            s = copy.deepcopy(scn)
            s["world"]["paths"][i] = {"kind": "static", "x0": [0.0, 0.0, 0.0]}
            yield s
    for i, m in enumerate(w["minerals"]):
        if m["n_grains"] > 2:
            for n in (2, 4, 8):
                if n < m["n_grains"]:
                    s = copy.deepcopy(scn)
                    s["world"]["minerals"][i]["n_grains"] = n
                    yield s
        if m.get("volumes", {}).get("kind") not in (None, "uniform"):
            s = copy.deepcopy(scn)
            s["world"]["minerals"][i]["volumes"] = {"kind": "uniform"}
            yield s
        if m.get("texture", {}).get("kind") not in (None, "random"):
            s = copy.deepcopy(scn)
            s["world"]["minerals"][i]["texture"] = {"kind": "random", "seed": 1}
            yield s
        if "F0" in m:
            s = copy.deepcopy(scn)
            del s["world"]["minerals"][i]["F0"]
            yield s
        if "regime_field" in m:
            s = copy.deepcopy(scn)
            del s["world"]["minerals"][i]["regime_field"]
            yield s


def minimise(scn, still_fails, candidates, budget=200, wall_s=120.0):
    """Greedy fixpoint: take the first candidate that still fails, restart.
    `still_fails(scn) -> bool` must be deterministic.  Returns (scn, executions)."""
    import time

    used = 0
    progress = True
    t0 = time.time()  # wall clock only bounds the effort; it never enters a digest
    while progress and used < budget and time.time() - t0 < wall_s:
        progress = False
        for cand in candidates(scn):
            if used >= budget or time.time() - t0 >= wall_s:
                break
            used += 1
            try:
                bad = still_fails(cand)
            except Exception:  # noqa: BLE001 - a candidate that breaks the harness is no candidate
                bad = False
            if bad:
                scn = cand
                progress = True
                break
    return scn, used

"""C07 — null forcing leaves the texture unchanged; unsupported regimes are rejected;
a failed update leaves the stored history untouched (fault enumeration)."""

import numpy as np

from .. import gen as G
from .. import scen as S
from ..oracles import ortho_bound
from ..world import World, sha
from .c06 import atol_estimate as _atol_est

PROPERTY = "C07"
LEVEL = "fault_enumeration"

CALLBACK_FAULTS = ["L_raises", "position_raises", "regime_raises"]
MUST_RAISE_OR_MATCH = CALLBACK_FAULTS + ["solver_failed", "params_key_missing"]
ALL_FAULTS = MUST_RAISE_OR_MATCH + ["regime_unsupported", "L_malformed", "L_nonfinite",
                                    "phase_not_in_assemblage"]
PARAM_KEYS = ["gbs_threshold", "phase_fractions", "stress_exponent", "deformation_exponent",
              "nucleation_efficiency", "gbm_mobility", "phase_assemblage"]
BAD_REGIMES = G.UNSUPPORTED + [8, -1, 99, 255]


def _mk_fault(rng, kind=None):
    kind = kind or rng.choice(ALL_FAULTS)
    f = {"kind": kind, "at_call": rng.randrange(1 << 20)}
    if kind == "regime_unsupported":
        f["value"] = rng.choice(BAD_REGIMES)
    if kind == "L_malformed":
        f["shape"] = rng.choice(["2x2", "vec", "none", "list"])
    if kind == "L_nonfinite":
        f["value"] = rng.choice(["nan", "inf", "-inf"])
        f["i"], f["j"] = rng.randrange(3), rng.randrange(3)
    if kind == "params_key_missing":
        f["key"] = rng.choice(PARAM_KEYS)
    if kind in CALLBACK_FAULTS and rng.random() < 0.5:
        # what the collaborator raises: not only a private exception type
        f["exc"] = rng.choice(["KeyError", "FloatingPointError", "StopIteration", "ValueError",
                               "RuntimeError", "MemoryError", "InjectedBaseFault"])
    return f


def generate(seed, tier="quick"):
    rng = G.rng_of("C07", seed)
    mode = rng.choice(["faults"] * 9 + ["rejects"] * 4 + ["null"] * 7)
    if mode == "faults":
        return _gen_faults(rng, seed, tier)
    if mode == "rejects":
        return _gen_rejects(rng, seed, tier)
    return _gen_null(rng, seed, tier)


def _gen_faults(rng, seed, tier):
    world = S.gen_world(rng, regimes=[G.R_MDISL] * 5 + [G.R_YIELD] * 2 + [G.R_MINV, G.R_MDIFF],
                        n_choices=[2, 3, 4, 5, 8, 8, 13, 16, 32])
    if rng.random() < 0.3:
        world["regime_fields"].append({"kind": "const", "r": rng.choice([G.R_MDISL, G.R_YIELD])})
        for m in world["minerals"]:
            if rng.random() < 0.5:
                m["regime_field"] = 0
                m["regime"] = world["regime_fields"][0]["r"]
    base_ops = S.gen_history_ops(rng, world, total=rng.choice([0.2, 0.5, 1.0, 2.0]),
                                 n_max=rng.choice([2, 4, 8]))
    enabled = rng.sample(ALL_FAULTS, rng.randint(2, len(ALL_FAULTS)))
    ops = []
    sweeps = 0
    max_sweeps = 2
    sweep_cap = 64 if rng.random() < 0.5 else 16
    for op in base_ops:
        c = rng.random()
        if c < 0.45:
            kind = rng.choice(enabled)
            fop = dict(op)
            fop["fault"] = _mk_fault(rng, kind)
            if kind in ("regime_raises", "regime_unsupported"):
                fop["restore_regime"] = True
            ops.append(fop)
            r = dict(op)
            r["retry_of"] = len(ops) - 1
            ops.append(r)
        elif c < 0.75 and sweeps < max_sweeps:
            kind = rng.choice([k for k in enabled if k != "phase_not_in_assemblage"] or ["L_raises"])
            f = _mk_fault(rng, kind)
            extra = {k: v for k, v in f.items() if k not in ("kind", "at_call")}
            sw = {"op": "fault_sweep", "m": op["m"], "t0": op["t0"], "t1": op["t1"],
                  "kind": kind, "max": sweep_cap, "fault_extra": extra}
            ops.append(sw)
            sweeps += 1
            r = dict(op)
            r["retry_of"] = len(ops) - 1
            ops.append(r)
        else:
            ops.append(op)
    # overlapped caller threads: one caller's update fails while another's is in flight
    if len(world["minerals"]) >= 2 and rng.random() < 0.35:
        last_t = {}
        for op in ops:
            if op.get("m") is not None and "t1" in op:
                last_t[op["m"]] = max(last_t.get(op["m"], 0.0), op["t1"])
        for _ in range(rng.randint(1, 2)):
            ms = rng.sample(range(len(world["minerals"])), 2)
            intervals, faults = [], {}
            for m in ms:
                a = last_t.get(m, 0.0)
                b = a + rng.choice([0.05, 0.2, 0.5])
                intervals.append([a, b])
                last_t[m] = b
            for m in rng.sample(ms, rng.choice([1, 1, 2])):
                kind = rng.choice(["L_raises", "position_raises", "solver_failed", "params_key_missing"])
                faults[str(m)] = _mk_fault(rng, kind)
            ops.append({"op": "overlap", "ms": ms, "intervals": intervals, "faults": faults,
                        "baton": [rng.randrange(6) for _ in range(rng.randint(8, 120))]})
            # the failed intervals are retried fault-free, sequentially
            for m, iv in zip(ms, intervals):
                if str(m) in faults:
                    ops.append({"op": "update", "m": m, "t0": iv[0], "t1": iv[1]})
    # bulk updates failing part-way (minerals sharing environment 0)
    group = [j for j, m in enumerate(world["minerals"]) if m["flow"] == 0]
    if len(group) >= 2 and rng.random() < 0.5:
        T = max([op["t1"] for op in ops if op.get("m") in group] or [1.0])
        for _ in range(rng.randint(1, 3)):
            order = group[:]
            rng.shuffle(order)
            b = {"op": "update_all", "ms": order, "t0": T, "t1": T + rng.choice([0.05, 0.2]),
                 "flow": 0, "path": 0, "params": world["minerals"][group[0]]["params"],
                 "F_from": order[0]}
            if rng.random() < 0.7:
                b["fault"] = {"kind": rng.choice(["L_raises", "position_raises"]),
                              "at_call": rng.randrange(1 << 20)}
            ops.append(b)
            T = b["t1"]
    return {"property": PROPERTY, "engine": "world", "seed": seed, "mode": "faults",
            "world": world, "ops": ops}


def _gen_rejects(rng, seed, tier):
    # invalid configurations must be rejected under ANY flow, including no flow at all and
    # rigid rotation (zero strain rate), where no texture-forming work would be done anyway
    fams = None
    c = rng.random()
    if c < 0.2:
        fams = ["zero"]
    elif c < 0.35:
        fams = ["rotation"]
    elif c < 0.45:
        fams = ["gated"]
    world = S.gen_world(rng, regimes=[G.R_MDISL] * 3 + [G.R_YIELD],
                        n_choices=[2, 3, 4, 8, 16], flow_families=fams)
    base_ops = S.gen_history_ops(rng, world, total=rng.choice([0.2, 0.5, 1.0]),
                                 n_max=rng.choice([2, 4, 6]))
    ops = []
    for op in base_ops:
        c = rng.random()
        m = world["minerals"][op["m"]]
        if c < 0.6:
            bad = dict(op)
            what = rng.choice(["regime", "regime", "regime_mid", "fabric", "phase"])
            if what == "regime":
                bad["override"] = {"regime": rng.choice(BAD_REGIMES)}
                bad["override_as_enum"] = rng.random() < 0.7
            elif what == "regime_mid":
                # the offending ordinal only appears mid-interval through get_regime
                world["regime_fields"].append(
                    {"kind": "switch", "at": op["t0"] + (op["t1"] - op["t0"]) * rng.uniform(0.05, 0.95),
                     "r0": m["regime"], "r1": rng.choice(BAD_REGIMES)})
                bad["regime_field"] = len(world["regime_fields"]) - 1
                bad["restore_regime"] = True
            elif what == "fabric":
                if m["phase"] == 0:
                    bad["override"] = {"fabric": rng.choice([5, 6, 9, 255, -1, -2, -6, -7])}
                else:
                    bad["override"] = {"fabric": rng.choice([0, 1, 2, 3, 4, 6, 77, -1, -5])}
            else:
                bad["override"] = {"phase": rng.choice([2, 3, 9, 255, -1, -2])}
            bad["expect"] = "reject"
            ops.append(bad)
            r = dict(op)
            ops.append(r)
        else:
            ops.append(op)
    flowtag = "zeroL" if fams == ["zero"] else "rotation" if fams == ["rotation"] else \
        "gated" if fams == ["gated"] else "flow"
    return {"property": PROPERTY, "engine": "world", "seed": seed, "mode": "rejects:" + flowtag,
            "world": world, "ops": ops}


def _gen_null(rng, seed, tier):
    which = rng.choice(["zeroL", "zeroL", "gated", "visc", "visc", "M0", "M0", "M0_late"])
    if which == "M0_late":
        return _gen_null_late(rng, seed, tier)
    kw = {}
    if which == "zeroL":
        kw["flow_families"] = ["zero"]
    elif which == "gated":
        kw["flow_families"] = ["gated"]
    regimes = [G.R_MDISL] * 3 + [G.R_YIELD, G.R_MINV, G.R_MAXV]
    if which == "visc":
        regimes = [G.R_MINV, G.R_MAXV]
    world = S.gen_world(rng, regimes=regimes, n_choices=[2, 3, 4, 8, 8, 16, 32, 64], **kw)
    if which == "M0":
        for p in world["paramsets"]:
            p["gbm_mobility"] = 0.0
    via_field = which == "visc" and rng.random() < 0.4
    if via_field:
        world["regime_fields"].append({"kind": "const", "r": rng.choice([G.R_MINV, G.R_MAXV])})
        for m in world["minerals"]:
            m["regime_field"] = 0
    if which == "gated":
        ops = []
        for mi, m in enumerate(world["minerals"]):
            a, b = world["flows"][m["flow"]]["gate"]
            # a leading interval with flow, intervals inside the gate, a spanning one
            if a > 0.01:
                ops.append({"op": "update", "m": mi, "t0": 0.0, "t1": a * 0.9, "null": None,
                            "may_reject": True})
                t = a * 0.9
                ops.append({"op": "update", "m": mi, "t0": t, "t1": a + (b - a) * 0.1,
                            "null": None, "may_reject": True})
                t = a + (b - a) * 0.1
            else:
                t = a
            for (x, y) in G.partition(rng, max(t, a), b, n_max=4):
                ops.append({"op": "update", "m": mi, "t0": x, "t1": y, "null": "zeroL"})
            ops.append({"op": "update", "m": mi, "t0": b, "t1": b + 0.3, "null": None,
                        "may_reject": True})
    else:
        ops = S.gen_history_ops(rng, world, total=rng.choice([0.3, 1.0, 3.0, 10.0]),
                                n_max=rng.choice([2, 5, 12, 30]))
        for op in ops:
            op["null"] = which
    return {"property": PROPERTY, "engine": "world", "seed": seed, "mode": "null:" + which,
            "world": world, "ops": ops}


def _gen_null_late(rng, seed, tier):
    """The boundary mobility is switched to zero part-way through a history, by rewriting
    the params dict in place (as a driver script would): from then on volume fractions must
    stay unchanged under any flow."""
    world = S.gen_world(rng, regimes=[G.R_MDISL] * 3 + [G.R_YIELD], n_choices=[2, 3, 4, 8, 16, 32])
    for p in world["paramsets"]:
        if p["gbm_mobility"] == 0.0:
            p["gbm_mobility"] = rng.choice([50.0, 125.0, 200.0])
    ops = S.gen_history_ops(rng, world, total=rng.choice([0.5, 1.0, 2.0]), n_max=rng.choice([3, 6, 10]))
    cut = rng.randint(1, max(1, len(ops) - 1))
    out = ops[:cut]
    for j in range(len(world["paramsets"])):
        out.append({"op": "set_param", "params": j, "key": "gbm_mobility", "value": 0.0})
    for op in ops[cut:]:
        o = dict(op)
        o["null"] = "M0"
        out.append(o)
    return {"property": PROPERTY, "engine": "world", "seed": seed, "mode": "null:M0_late",
            "world": world, "ops": out}


# --------------------------------------------------------------------------- oracle
class C07Monitor:
    def __init__(self, scn):
        self.scn = scn
        self.verdicts = []
        self.c = {}
        self.maxima = {}
        self.instants = set()

    def v(self, clause, i, m, detail):
        self.verdicts.append({"property": PROPERTY, "clause": clause, "op": i, "m": m,
                              "detail": detail})

    def inc(self, k, n=1):
        self.c[k] = self.c.get(k, 0) + n

    def mx(self, k, val):
        self.maxima[k] = max(self.maxima.get(k, 0.0), float(val))

    def _untouched(self, world, i, except_m=None, why=""):
        for mrec in world.minerals:
            if mrec.idx == except_m:
                continue
            o = mrec.obj
            if (id(o.orientations), id(o.fractions)) != mrec.ids:
                self.v("untouched", i, mrec.idx, {"what": "history list object replaced", "why": why})
                mrec.sync_ref()
                continue
            if len(o.orientations) != len(mrec.ref) or len(o.fractions) != len(mrec.ref):
                self.v("untouched", i, mrec.idx,
                       {"what": "history length changed", "expected": len(mrec.ref),
                        "orientations": len(o.orientations), "fractions": len(o.fractions),
                        "why": why})
                mrec.sync_ref()
                continue
            for k, (A, f, h) in enumerate(mrec.ref):
                if sha(o.orientations[k], o.fractions[k]) != h:
                    self.v("untouched", i, mrec.idx, {"what": "stored snapshot altered",
                                                      "snapshot": k, "why": why})
                    mrec.sync_ref()
                    break

    def _advance(self, world, i, r):
        """An update reported success: exactly one snapshot appended to its mineral."""
        mrec = world.minerals[r["m"]]
        o = mrec.obj
        if len(o.orientations) != len(mrec.ref) + 1 or len(o.fractions) != len(mrec.ref) + 1:
            self.v("untouched", i, mrec.idx, {"what": "completed update did not append exactly one",
                                              "expected": len(mrec.ref) + 1,
                                              "orientations": len(o.orientations),
                                              "fractions": len(o.fractions)})
            mrec.sync_ref()
            return
        A, f = o.orientations[-1], o.fractions[-1]
        mrec.ref.append((np.array(A, copy=True), np.array(f, copy=True), sha(A, f)))

    def _cmp_twin(self, world, i, r, dry_twin, dry_F, clause):
        mrec = world.minerals[r["m"]]
        o = mrec.obj
        tw = dry_twin
        dA = float(np.abs(o.orientations[-1] - tw.orientations[-1]).max())
        df = float(np.abs(o.fractions[-1] - tw.fractions[-1]).max())
        dF = float(np.abs(r["F_out"] - dry_F).max() / max(np.abs(dry_F).max(), 1e-300))
        tight = world.solver.get("tol") == "tight"
        tol = 1e-6 if tight else 2 * ortho_bound(1, r.get("strain", 0.0))
        self.mx("recover_diff_over_tol", max(dA, df, dF) / tol)
        if dA == 0 and df == 0 and dF == 0:
            self.inc("recover_bit_identical")
        if max(dA, df, dF) > tol:
            self.v(clause, i, mrec.idx, {"dA": dA, "df": df, "dF": dF, "tol": tol})

    def _bulk(self, world, i, op, rec):
        """A bulk update, possibly failing part-way: every mineral before the failing one has
        appended exactly one snapshot to BOTH lists, the failing one and those after it none;
        minerals outside the call are untouched."""
        ms = rec["ms"]
        kind = rec.get("fault")
        if kind:
            self.inc(f"fault_configured.bulk.{kind}")
            if rec.get("fired"):
                self.inc(f"fault_fired.bulk.{kind}")
        appended_flags = []
        for m in ms:
            mrec = world.minerals[m]
            o = mrec.obj
            nO, nF, nR = len(o.orientations), len(o.fractions), len(mrec.ref)
            if (id(o.orientations), id(o.fractions)) != mrec.ids:
                self.v("untouched", i, m, {"what": "history list object replaced by a bulk update"})
                mrec.sync_ref()
                appended_flags.append(None)
                continue
            if nO == nF == nR + 1 and all(
                    sha(o.orientations[k], o.fractions[k]) == mrec.ref[k][2] for k in range(nR)):
                appended_flags.append(True)
                A, f = o.orientations[-1], o.fractions[-1]
                mrec.ref.append((np.array(A, copy=True), np.array(f, copy=True), sha(A, f)))
            elif nO == nF == nR and all(
                    sha(o.orientations[k], o.fractions[k]) == mrec.ref[k][2] for k in range(nR)):
                appended_flags.append(False)
            else:
                self.v("untouched", i, m, {"what": "bulk update left a mineral's history inconsistent",
                                           "orientations": nO, "fractions": nF, "expected": [nR, nR + 1],
                                           "status": rec["status"]})
                mrec.sync_ref()
                appended_flags.append(None)
        flags = [x for x in appended_flags if x is not None]
        if rec["status"] == "ok":
            self.inc("bulk_updates_ok")
            if not all(flags):
                self.v("untouched", i, ms[0], {"what": "completed bulk update did not append to every mineral",
                                               "appended": appended_flags})
        else:
            self.inc("bulk_updates_raised")
            if kind and rec.get("fired"):
                self.inc("bulk_updates_failed_part_way")
            # appended must form a prefix of the list
            seen_false = False
            for x in flags:
                if x is False:
                    seen_false = True
                elif x is True and seen_false:
                    self.v("untouched", i, ms[0], {"what": "a mineral after the failing one was updated",
                                                   "appended": appended_flags})
                    break
            if all(flags) and flags:
                self.v("untouched", i, ms[0], {"what": "bulk update raised but every mineral, "
                                               "including the failing one, appended a snapshot",
                                               "appended": appended_flags})
        self._untouched(world, i, why="bulk update", except_m=None) if False else None
        for mrec in world.minerals:
            if mrec.idx in ms:
                continue
            o = mrec.obj
            if len(o.orientations) != len(mrec.ref) or len(o.fractions) != len(mrec.ref):
                self.v("untouched", i, mrec.idx, {"what": "mineral outside a bulk update changed"})
                mrec.sync_ref()

    def after_op(self, world, i, op, rec):
        if rec["op"] == "set_param":
            self.inc("params_rewritten_in_place")
            return
        if rec["op"] == "update_all":
            self._bulk(world, i, op, rec)
            return
        subs = rec.get("sub") or [rec]
        if rec["op"] == "overlap":
            # callers that completed are accounted first, so that the reference model is in
            # sync when the failed callers' minerals are compared against it
            subs = sorted(subs, key=lambda r: r.get("status") != "ok")
            self.inc("overlap_ops")
            self.inc("overlap_baton_switches", rec.get("switches", 0))
            if any(r.get("fault") and r.get("fired") for r in subs):
                self.inc("faults_fired_while_another_caller_in_flight")
        for r in subs:
            if r["op"] != "update":
                continue
            m = r["m"]
            kind = r.get("fault")
            if kind:
                self.inc(f"fault_configured.{kind}")
            if kind and r["fired"]:
                self.inc(f"fault_fired.{kind}")
                if r["status"] == "raised" and r.get("exc") not in (None, "InjectedFault"):
                    self.inc(f"fault_exc_type.{r['exc']}")
                if r.get("fired_in_loop"):
                    self.inc(f"fault_fired_in_solver_loop.{kind}")
                else:
                    self.inc(f"fault_fired_in_preamble.{kind}")
                self.instants.add((kind, r.get("fault_at")))
            if r["status"] == "raised":
                self.inc("updates_raised")
                self.inc(f"raised_exc.{r['exc']}")
                self._untouched(world, i, why=f"update raised {r['exc']} (fault={kind})")
                if op.get("null") == "M0" and not kind:
                    # an M* = 0 update under flow that is rejected (e.g. the C-type olivine
                    # axis-aligned ZeroDivisionError, which belongs to C03) changes nothing:
                    # counted, not judged
                    self.inc("null_M0_update_rejected")
                elif op.get("null") and not kind:
                    self.v("null_forcing", i, m, {"what": "null-forcing update raised",
                                                  "exc": r["exc"], "msg": r.get("msg"),
                                                  "null": op.get("null")})
                continue
            # ---- status ok
            self.inc("updates_ok")
            self._untouched(world, i, except_m=m, why="another mineral's update completed")
            self._advance(world, i, r)
            if kind and r["fired"]:
                if kind == "regime_unsupported":
                    self.v("rejects", i, m, {"what": "unsupported/invalid regime returned by "
                                             "get_regime mid-update was accepted",
                                             "value": (op.get("fault") or op.get("fault_extra", {})).get("value")})
                elif kind in MUST_RAISE_OR_MATCH and r.get("dry_twin") is not None and r["dry"]["ok"]:
                    # the update claimed success although a collaborator failed inside it:
                    # then it must be the complete, correct update
                    self._cmp_twin(world, i, r, r["dry_twin"], r["dry_F"], "partial_result")
            if rec["op"] == "fault_sweep":
                # the injected update completed: roll the mineral back (harness action) so
                # that the next instant of the sweep starts from the same state
                mrec = world.minerals[m]
                self.inc("sweep_injection_completed")
                del mrec.obj.orientations[-1]
                del mrec.obj.fractions[-1]
                mrec.ref.pop()
                mrec.F = r["F_in"].copy()
                mrec.completed -= 1
                mrec.strain -= r.get("strain", 0.0)
                continue
            if op.get("expect") == "reject":
                self.v("rejects", i, m, {"what": "invalid configuration accepted",
                                         "override": op.get("override"),
                                         "regime_field": op.get("regime_field")})
            if "retry_of" in op and not kind:
                src = world.log[op["retry_of"]] if op["retry_of"] < len(world.log) else None
                if src is not None and src.get("dry_twin") is not None and src["dry"]["ok"]:
                    self.inc("recoveries_checked")
                    self._cmp_twin(world, i, r, src["dry_twin"], src["dry_F"], "recovers")
                    if r["steps"] > 1.1 * src["dry"]["steps"] + 1:
                        self.v("recovers", i, m, {"what": "retry needed more solver steps",
                                                  "steps": r["steps"], "dry": src["dry"]["steps"]})
            if op.get("null"):
                self._null(world, i, op, r)
        if rec["op"] == "update" and op.get("expect") == "reject" and rec["status"] == "raised":
            self.inc("rejections_observed")
            self.inc("rejections_observed." + self.scn["mode"].split(":")[-1])
        if "retry_of" in op and rec["status"] == "raised":
            src = world.log[op["retry_of"]]
            if src.get("dry") and src["dry"]["ok"]:
                self.v("recovers", i, op["m"], {"what": "fault-free retry raised", "exc": rec["exc"],
                                                "msg": rec.get("msg")})

    def _null(self, world, i, op, r):
        mrec = world.minerals[r["m"]]
        o = mrec.obj
        which = op["null"]
        A0, f0 = mrec.ref[-2][0], mrec.ref[-2][1]
        A1, f1 = o.orientations[-1], o.fractions[-1]
        params = world.paramsets[r["params"]]
        chi = params["gbs_threshold"]
        n = int(o.n_grains)
        thr = chi / n
        self.inc(f"null_checked.{which}")
        if which in ("zeroL", "visc"):
            dA = float(np.abs(A1 - A0).max())
            self.mx("null_dA", dA)
            if not dA <= 1e-12:
                self.v("null_forcing", i, mrec.idx, {"what": "orientations changed", "dA": dA,
                                                     "null": which})
        mask = f0 < thr
        if thr > 0 and np.any(np.abs(f0 - thr) <= 1e-13 * thr):
            self.inc("inconclusive_tie")
            return
        if mask.any():
            self.inc("null_with_grains_below_threshold")
            exp = np.where(mask, thr, f0)
            exp = exp / exp.sum()
        else:
            exp = f0
        df = float(np.abs(f1 - exp).max())
        self.mx("null_df", df)
        if not df <= 1e-12:
            self.v("null_forcing", i, mrec.idx, {"what": "volume fractions changed", "df": df,
                                                 "null": which, "below_threshold": int(mask.sum())})
        # F still follows C06
        flow, path = world.flows[r["flow"]], world.paths[r["path"]]
        Fref = world.ref_F(flow, path, op["t0"], op["t1"], r["F_in"])
        rel = float(np.abs(r["F_out"] - Fref).max() / np.abs(Fref).max())
        bound = 5e-3 + 1e-3 * (1 + 2 * r.get("strain", 0.0))
        self.mx("null_F_rel_over_bound", rel / bound)
        if not rel <= bound:
            self.v("null_forcing", i, mrec.idx, {"what": "F does not follow dF/dt = L F",
                                                 "solver_steps": r["steps"],
                                                 "rigid_rotation_call_rad": world.rotation_over(
                                                     flow, path, op["t0"], op["t1"]),
                                                 "atol_estimate_over_bound": _atol_est(r["F_in"], Fref) / bound,
                                                 "rel": rel, "bound": bound})


def execute(scn):
    world = World(scn["world"])
    mon = C07Monitor(scn)
    world.run(scn["ops"], after_op=mon.after_op)
    c = mon.c
    c["update_calls"] = sum(len(r.get("sub") or [r]) for r in world.log)
    mon.instants |= {("bulk." + r["fault"], r.get("nL")) for r in world.log
                     if r["op"] == "update_all" and r.get("fault") and r.get("fired")}
    c["fault_sweeps"] = sum(1 for r in world.log if r["op"] == "fault_sweep")
    c["sweep_instants"] = sum(r["instants"] for r in world.log if r["op"] == "fault_sweep")
    c["sweeps_exhaustive"] = sum(1 for r in world.log if r["op"] == "fault_sweep"
                                 and r["instants"] == r["N"])
    fired_kinds = sorted({k for (k, _) in mon.instants})
    states = {f"{k}@{'pre' if (a or 0) < 3 else 'loop'}" for (k, a) in mon.instants}
    stats = {
        "counters": c,
        "maxima": mon.maxima,
        "sim_strain": float(sum(m.strain for m in world.minerals)),
        "sig": scn["mode"] + "|" + S.schedule_signature(scn["ops"]) + "|" +
               ",".join(f"{k}@{a}" for (k, a) in sorted(mon.instants, key=str)),
        "nontrivial": bool(mon.instants) or c.get("rejections_observed", 0) > 0
                      or any(k.startswith("null_checked") for k in c),
        "states": sorted(states | {scn["mode"]}),
        "fired_kinds": fired_kinds,
    }
    return {"verdicts": mon.verdicts, "digest": world.digest(), "stats": stats}


def shrink_candidates(scn):
    from ..shrink import generic_world_candidates

    for c in generic_world_candidates(scn):
        # dropping ops invalidates retry_of indices: re-point or drop them
        _fix_retry(c)
        yield c


def _fix_retry(scn):
    ops = scn["ops"]
    for j, op in enumerate(ops):
        if "retry_of" in op:
            k = j - 1
            if k >= 0 and ops[k]["op"] in ("update", "fault_sweep") and \
                    (ops[k].get("fault") or ops[k]["op"] == "fault_sweep") and \
                    ops[k]["m"] == op["m"] and ops[k]["t0"] == op["t0"]:
                op["retry_of"] = k
            else:
                del op["retry_of"]


RUNS = {"quick": 1500, "thorough": 34000}
RULE = ("one evaluation = one seeded world and history in one of three modes: faults (a share of "
        "updates get a fault of a seeded kind at a seeded instant found by dry-running the update "
        "on a never-faulted twin, up to two updates per run are swept: the fault is injected at "
        "EVERY callback/step/read index of that update when it has <= 64 (or 16) of them, else at "
        "that many evenly spread instants; each faulted update is followed by a fault-free retry), "
        "rejects (unsupported/out-of-range regime, mismatched fabric, invalid phase; also appearing "
        "mid-interval through get_regime), null (L == 0, gated-to-zero L, viscosity-bound regimes, "
        "M* = 0 under arbitrary flow). distinct = distinct (mode, schedule signature, set of "
        "(fault kind, instant) that actually fired); non-trivial = a fault fired inside an update, "
        "or a rejection was observed, or a null-forcing update was judged")
COMPONENTS = {
    "real": ["pydrex.Mineral.update_orientations", "pydrex.core.derivatives", "apply_gbs/extract_vars",
             "scipy LSODA (real integrator; the subclass only counts steps and reports an injected failure)"],
    "simulator_owned": ["velocity-gradient / pathline / regime callables (raise, return malformed or "
                        "non-finite values at a chosen call index)", "params dict (key disappears after "
                        "k reads)", "LSODA class seam (status=failed at step j)", "partition, interleaving"],
    "stub": [],
}
ASSUMPTIONS = [
    "asynchronous exceptions at arbitrary bytecodes (KeyboardInterrupt between the two appends) are not injected",
    "for non-finite / malformed L and a phase absent from the assemblage the only demand is: if the update raises, history is untouched",
    "mismatched (phase, fabric) pairs are only required to be rejected in dislocation-type regimes, where the fabric is used",
    "scipy LSODA trusted as a black box",
]
PROBES = ["params_rewritten_in_place", "rejections_observed.zeroL", "rejections_observed.rotation"] + \
         [f"fault_fired_in_solver_loop.{k}" for k in
          ("L_raises", "position_raises", "regime_raises", "solver_failed", "params_key_missing",
           "regime_unsupported", "L_malformed", "L_nonfinite")] + \
         ["faults_fired_while_another_caller_in_flight", "bulk_updates_failed_part_way", "fault_fired.phase_not_in_assemblage", "recoveries_checked", "rejections_observed",
          "null_checked.zeroL", "null_checked.visc", "null_checked.M0",
          "null_with_grains_below_threshold", "sweeps_exhaustive"]
SHRINK_BUDGET = 150


def warmup():
    from ..warm import warm_world

    warm_world(restart=False)


def coverage_floor(counters, n_done):
    if n_done == 0:
        return "no run completed"
    fired = sum(v for k, v in counters.items() if k.startswith("fault_fired."))
    if fired == 0:
        return "no fault ever fired"
    return None

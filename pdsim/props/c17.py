"""C17 — mineral persistence round trip for any history and postfix set (Engine C).

Seeded save/load histories over several NPZ archives in a private directory, against an
in-memory reference map; rejected operations injected at arbitrary points; the file
system is snapshotted (names, sizes, content hashes) around every operation."""

import hashlib
import os
import shutil
import tempfile

import numpy as np

from .. import gen as G
from ..boot import boot

PROPERTY = "C17"
LEVEL = "exploration"

POSTFIXES = ["a", "a_1", "1", "_", "b", "ol", "en", "x_y_z", "A", "a1", "meta", "fractions",
             "0", "00", "step_10", "a_", "_a", "Z9", "123", "1e5", "orientations", "b_a",
             "p" * 120,
             # postfixes are arbitrary strings: punctuation, blanks, path separators, unicode,
             # names that differ only in such characters, a non-string postfix
             "0.5", "05", "-1", "a b", "ab", "a-b", "a.b", "x/y", "\u00e9", "a.npy", " ", "A*", "..", 9,
             # falsy postfixes that are not None (the documented switch is `postfix is not None`)
             "", 0.0]


# --------------------------------------------------------------------------- generation
def _gen_mineral(rng, i):
    n = rng.choice([1, 2, 3, 5, 8, 13, 40])
    return {
        "id": i, "phase": rng.choice([0, 1]), "fabric": rng.randrange(6), "regime": rng.randrange(8),
        "n_grains": n, "n_snap": rng.randint(1, 12), "seed": rng.randrange(1 << 30),
        "specials": rng.random() < 0.5, "as_enum": rng.random() < 0.5,
    }


def generate(seed, tier="quick"):
    rng = G.rng_of("C17", seed)
    n_min = rng.randint(1, 8)
    minerals = [_gen_mineral(rng, i) for i in range(n_min)]
    archives = [f"arch{j}.npz" for j in range(rng.randint(1, 3))]
    if rng.random() < 0.3:
        archives.append("sub/dir/deep.npz")
    whole_files = [f"whole{j}.npz" for j in range(rng.randint(1, 2))]
    ops = []
    used = {a: [] for a in archives}
    n_ops = rng.randint(3, 40)
    mix_ok = rng.random() < 0.15  # allow the situations the statement is silent about
    for _ in range(n_ops):
        c = rng.random()
        if c < 0.30:
            a = rng.choice(archives)
            free = [p for p in POSTFIXES if p not in used[a]]
            if free and len(used[a]) < 8:
                pf = rng.choice(free)
                used[a].append(pf)
                ops.append({"op": "save_postfix", "m": rng.randrange(n_min), "file": a, "postfix": pf})
            continue
        if c < 0.40:
            ops.append({"op": "save_whole", "m": rng.randrange(n_min), "file": rng.choice(whole_files)})
            continue
        if c < 0.62:
            ops.append({"op": "load_any", "via": rng.choice(["from_file", "load"]),
                        "pick": rng.randrange(1 << 16), "into": rng.randrange(n_min)})
            continue
        if c < 0.67:
            ops.append({"op": "restart"})
            continue
        if c < 0.85:
            kind = rng.choice(["unequal_counts", "size_mismatch", "late_size_mismatch",
                               "non_npz_load", "non_npz_from_file"])
            target = rng.choice(["fresh", "existing", "missing_parent"])
            ops.append({"op": "reject", "kind": kind, "m": rng.randrange(n_min), "target": target,
                        "file_pick": rng.randrange(1 << 16),
                        "postfix": rng.choice([None, "rej", rng.choice(POSTFIXES)]),
                        "which": rng.choice(["fractions", "orientations"])})
            continue
        if mix_ok:
            k = rng.choice(["whole_over_archive", "postfix_into_whole", "reuse_postfix", "non_npz_save"])
            ops.append({"op": "unjudged", "kind": k, "m": rng.randrange(n_min),
                        "pick": rng.randrange(1 << 16)})
    # always end with loading everything back in a seeded order
    ops.append({"op": "load_all", "via": rng.choice(["from_file", "load", "both"]),
                "order_seed": rng.randrange(1 << 30)})
    return {"property": PROPERTY, "engine": "store", "seed": seed, "minerals": minerals, "ops": ops,
            "relative_paths": rng.random() < 0.3}


# --------------------------------------------------------------------------- execution
SPECIALS = np.array([np.nan, -np.nan, np.inf, -np.inf, -0.0, 0.0, 5e-324, -5e-324, 2.2250738585072014e-308,
                     1.7976931348623157e308, 1.0, -1.0])


def build_mineral(pydrex, spec):
    n = spec["n_grains"]
    rng = np.random.default_rng(spec["seed"])
    snaps_A, snaps_f = [], []
    for _ in range(spec["n_snap"]):
        A = rng.uniform(-1, 1, size=(n, 3, 3))
        f = rng.uniform(0, 1, size=n)
        if spec["specials"]:
            kA = rng.integers(0, A.size, size=max(1, A.size // 5))
            A.ravel()[kA] = rng.choice(SPECIALS, size=kA.size)
            kf = rng.integers(0, f.size, size=max(1, f.size // 3))
            f.ravel()[kf] = rng.choice(SPECIALS, size=kf.size)
            # a NaN with a non-default payload
            bits = np.array([0x7FF8000000000ABC], dtype=np.uint64).view(np.float64)[0]
            A.ravel()[int(rng.integers(0, A.size))] = bits
        snaps_A.append(A)
        snaps_f.append(f)
    if spec["as_enum"]:
        ph, fa, rg = (pydrex.MineralPhase(spec["phase"]), pydrex.MineralFabric(spec["fabric"]),
                      pydrex.DeformationRegime(spec["regime"]))
    else:
        ph, fa, rg = spec["phase"], spec["fabric"], spec["regime"]
    m = pydrex.Mineral(phase=ph, fabric=fa, regime=rg, n_grains=n,
                       fractions_init=snaps_f[0], orientations_init=snaps_A[0])
    for A, f in zip(snaps_A[1:], snaps_f[1:]):
        m.orientations.append(A)
        m.fractions.append(f)
    return m


def model_of(m):
    return {
        "phase": int(m.phase), "fabric": int(m.fabric), "regime": int(m.regime),
        "n_grains": int(m.n_grains),
        "A": [np.array(a, copy=True) for a in m.orientations],
        "f": [np.array(a, copy=True) for a in m.fractions],
    }


def fs_snapshot(root):
    out = {}
    for d, dirs, files in os.walk(root):
        rel = os.path.relpath(d, root)
        out[("D", rel)] = None
        for fn in files:
            p = os.path.join(d, fn)
            with open(p, "rb") as fh:
                data = fh.read()
            out[("F", os.path.join(rel, fn))] = (len(data), hashlib.sha256(data).hexdigest())
    return out


def same_bytes(a, b):
    a = np.asarray(a)
    b = np.asarray(b)
    return a.dtype == b.dtype == np.float64 and a.shape == b.shape and a.tobytes() == b.tobytes()


class Store:
    def __init__(self, scn):
        self.pydrex = boot()
        self.scn = scn
        self.root = tempfile.mkdtemp(prefix="pdsim_c17_")
        self.relative = bool(scn.get("relative_paths"))
        self._cwd = os.getcwd()
        if self.relative:
            os.chdir(self.root)  # file names are then handed to PyDRex relative to the cwd
        self.minerals = [build_mineral(self.pydrex, s) for s in scn["minerals"]]
        self.model = {}      # (file, postfix|None) -> model dict   (judged keys only)
        self.kind = {}       # file -> "whole" | "postfix" | "dirty"
        self.verdicts = []
        self.c = {}
        self.log = []

    def close(self):
        if self.relative:
            os.chdir(self._cwd)
        shutil.rmtree(self.root, ignore_errors=True)

    def v(self, clause, i, detail):
        self.verdicts.append({"property": PROPERTY, "clause": clause, "op": i, "m": None,
                              "detail": detail})

    def inc(self, k, n=1):
        self.c[k] = self.c.get(k, 0) + n

    def path(self, file):
        return file if self.relative else os.path.join(self.root, file)

    # ---- comparisons
    def compare(self, got, key, i, via, clause="roundtrip"):
        exp = self.model[key]
        probs = []
        for attr in ("phase", "fabric", "regime"):
            try:
                if int(getattr(got, attr)) != exp[attr]:
                    probs.append(f"{attr}: {int(getattr(got, attr))} != {exp[attr]}")
            except Exception as e:  # noqa: BLE001
                probs.append(f"{attr}: {type(e).__name__}")
        if int(got.n_grains) != exp["n_grains"]:
            probs.append(f"n_grains: {int(got.n_grains)} != {exp['n_grains']}")
        if len(got.orientations) != len(exp["A"]) or len(got.fractions) != len(exp["f"]):
            probs.append(f"snapshot count: {len(got.orientations)}/{len(got.fractions)} != {len(exp['A'])}")
        else:
            for k in range(len(exp["A"])):
                if not same_bytes(got.orientations[k], exp["A"][k]):
                    probs.append(f"orientations[{k}] not bit-identical "
                                 f"(dtype {np.asarray(got.orientations[k]).dtype})")
                    break
                if not same_bytes(got.fractions[k], exp["f"][k]):
                    probs.append(f"fractions[{k}] not bit-identical "
                                 f"(dtype {np.asarray(got.fractions[k]).dtype})")
                    break
        self.inc("loads_compared")
        self.inc(f"loads_compared.{via}")
        if probs:
            self.v(clause, i, {"key": [key[0], key[1]], "via": via, "problems": probs[:4]})

    def load_key(self, key, via, i, into=None, clause="roundtrip"):
        file, pf = key
        try:
            if via == "from_file":
                got = self.pydrex.Mineral.from_file(self.path(file), pf)
            else:
                got = self.minerals[into] if into is not None else \
                    self.pydrex.Mineral(n_grains=11, seed=1)
                # loading into an object whose phase/fabric/regime/grain count/history differ
                got.load(self.path(file), pf)
                if into is not None:
                    self.inc("loads_into_existing_object")
        except Exception as e:  # noqa: BLE001
            self.v(clause, i, {"key": [file, pf], "via": via,
                               "problems": [f"load raised {type(e).__name__}: {str(e)[:120]}"]})
            return
        self.compare(got, key, i, via, clause)

    def check_isolation(self, i):
        for key in sorted(self.model, key=str):
            self.load_key(key, "from_file", i, clause="isolation")
            self.inc("isolation_loads")

    # ---- ops
    def run(self):
        for i, op in enumerate(self.scn["ops"]):
            getattr(self, "op_" + op["op"])(i, op)
        return self

    def op_save_postfix(self, i, op):
        m = self.minerals[op["m"]]
        file, pf = op["file"], op["postfix"]
        try:
            m.save(self.path(file), pf)
        except Exception as e:  # noqa: BLE001
            self.v("roundtrip", i, {"what": f"valid save raised {type(e).__name__}: {str(e)[:120]}",
                                    "key": [file, pf]})
            return
        self.inc("saves_postfix")
        if self.kind.get(file, "postfix") == "postfix":
            self.kind[file] = "postfix"
            self.model[(file, pf)] = model_of(m)
            n_pf = len([k for k in self.model if k[0] == file])
            if n_pf >= 2:
                self.inc("archives_reaching_>=2_postfixes")
        else:
            self.kind[file] = "dirty"
        self.log.append(("save_postfix", file, pf))
        self.check_isolation(i)

    def op_save_whole(self, i, op):
        m = self.minerals[op["m"]]
        file = op["file"]
        try:
            m.save(self.path(file))
        except Exception as e:  # noqa: BLE001
            self.v("roundtrip", i, {"what": f"valid save raised {type(e).__name__}: {str(e)[:120]}",
                                    "key": [file, None]})
            return
        self.inc("saves_whole")
        if self.kind.get(file, "whole") == "whole":
            self.kind[file] = "whole"
            self.model[(file, None)] = model_of(m)
        self.log.append(("save_whole", file, None))
        # the statement judges a whole-file save loaded back with nothing in between
        self.load_key((file, None), "from_file", i) if (file, None) in self.model else None
        self.load_key((file, None), "load", i) if (file, None) in self.model else None
        self.check_isolation(i)

    def op_load_any(self, i, op):
        keys = sorted(self.model, key=str)
        if not keys:
            return
        key = keys[op["pick"] % len(keys)]
        into = op["into"] if op["via"] == "load" else None
        self.load_key(key, op["via"], i, into=into)
        if into is not None:
            # the object now holds the loaded state; a subsequent save of it must work
            self.inc("objects_overwritten_by_load")

    def op_restart(self, i, op):
        self.minerals = [build_mineral(self.pydrex, s) for s in self.scn["minerals"]]
        self.inc("restarts")

    def op_load_all(self, i, op):
        keys = sorted(self.model, key=str)
        rng = np.random.default_rng(op["order_seed"])
        order = list(rng.permutation(len(keys)))
        for j in order:
            vias = ["from_file", "load"] if op["via"] == "both" else [op["via"]]
            for via in vias:
                self.load_key(keys[j], via, i)
        self.inc("final_load_all_keys", len(keys))

    def op_reject(self, i, op):
        kind = op["kind"]
        files = sorted(self.kind)
        if op["target"] == "existing" and files:
            file = files[op["file_pick"] % len(files)]
        elif op["target"] == "missing_parent":
            file = f"nodir{i}/inner/rej.npz"
        else:
            file = f"fresh{i}.npz"
        before = fs_snapshot(self.root)
        exc = None
        what = kind
        try:
            if kind in ("non_npz_load", "non_npz_from_file"):
                bad = rng_name = ["data.txt", "archive.npy", "noext", "x.npz.bak", "a.NPZ"][op["file_pick"] % 5]
                # make the file exist so that the refusal is about the name, not a missing file
                if files:
                    src = self.path(files[op["file_pick"] % len(files)])
                    if os.path.exists(src):
                        shutil.copyfile(src, self.path(bad))
                        before = fs_snapshot(self.root)
                if kind == "non_npz_load":
                    self.pydrex.Mineral(n_grains=3, seed=2).load(self.path(bad), op["postfix"])
                else:
                    self.pydrex.Mineral.from_file(self.path(bad), op["postfix"])
            else:
                m = build_mineral(self.pydrex, self.scn["minerals"][op["m"]])
                which = op["which"]
                lst = getattr(m, which)
                if kind == "unequal_counts":
                    lst.append(np.array(lst[-1], copy=True))
                elif kind == "size_mismatch":
                    # every snapshot of one kind has one grain too many
                    for k in range(len(lst)):
                        lst[k] = np.concatenate([lst[k], lst[k][:1]], axis=0)
                else:  # late_size_mismatch: only the last snapshot is off
                    if len(lst) < 2:
                        lst.append(np.array(lst[-1], copy=True))
                        other = m.orientations if which == "fractions" else m.fractions
                        other.append(np.array(other[-1], copy=True))
                    lst[-1] = np.concatenate([lst[-1], lst[-1][:1]], axis=0)
                m.save(self.path(file), op["postfix"])
        except Exception as e:  # noqa: BLE001
            exc = e
        after = fs_snapshot(self.root)
        self.inc("rejected_ops")
        self.inc(f"rejected_ops.{kind}")
        self.inc(f"rejected_target.{op['target']}")
        if exc is None:
            self.v("rejects", i, {"what": f"{what} was accepted", "file": file,
                                  "postfix": op["postfix"]})
        elif not isinstance(exc, ValueError):
            self.v("rejects", i, {"what": f"{what} raised {type(exc).__name__} instead of ValueError",
                                  "msg": str(exc)[:160]})
        if after != before:
            diff = sorted(str(k) for k in set(after) ^ set(before)) + \
                sorted(str(k) for k in set(after) & set(before) if after[k] != before[k])
            self.v("no_write", i, {"what": f"rejected operation ({what}) changed the file system",
                                   "changed": diff[:6]})
        if op["target"] == "existing" and files:
            self.inc("rejected_op_hit_existing_archive")
        self.check_isolation(i)

    def op_unjudged(self, i, op):
        """Situations the statement is silent about: generated and observed, not judged."""
        files = sorted(self.kind)
        m = self.minerals[op["m"]]
        kind = op["kind"]
        try:
            if kind == "non_npz_save":
                m.save(self.path(f"plain{i}.txt"))
                self.inc("observed.non_npz_save_wrote_" +
                         ("txt.npz" if os.path.exists(self.path(f"plain{i}.txt.npz")) else "other"))
                return
            if not files:
                return
            file = files[op["pick"] % len(files)]
            if kind == "whole_over_archive":
                m.save(self.path(file))
            elif kind == "postfix_into_whole":
                m.save(self.path(file), "late")
            elif kind == "reuse_postfix":
                keys = [k for k in self.model if k[0] == file and k[1] is not None]
                if not keys:
                    return
                m.save(self.path(file), keys[0][1])
            # the archive is now outside the two judged situations
            self.kind[file] = "dirty"
            for k in [k for k in self.model if k[0] == file]:
                del self.model[k]
            self.inc(f"observed.{kind}")
        except Exception as e:  # noqa: BLE001
            self.inc(f"observed.{kind}.raised.{type(e).__name__}")


def execute(scn):
    st = Store(scn)
    try:
        st.run()
    finally:
        st.close()
    h = hashlib.sha256()
    for v in st.verdicts:
        h.update(repr((v["clause"], v["op"], sorted(v["detail"].items(), key=str))).encode())
    h.update(repr(sorted(st.c.items())).encode())
    h.update(repr(st.log).encode())
    c = st.c
    c["ops"] = len(scn["ops"])
    sig = ",".join(f"{o['op']}:{o.get('kind', o.get('via', o.get('postfix', '')))}" for o in scn["ops"])
    stats = {
        "counters": c, "maxima": {}, "sim_strain": 0.0,
        "sig": sig,
        "nontrivial": c.get("archives_reaching_>=2_postfixes", 0) > 0 or
                      c.get("rejected_op_hit_existing_archive", 0) > 0,
        "states": sorted({f"rel{int(bool(scn.get('relative_paths')))}|pf{min(c.get('saves_postfix', 0), 8)}|wh{min(c.get('saves_whole', 0), 3)}|"
                          f"rej{min(c.get('rejected_ops', 0), 4)}|rs{min(c.get('restarts', 0), 2)}"}),
    }
    return {"verdicts": st.verdicts, "digest": h.hexdigest(), "stats": stats}


def shrink_candidates(scn):
    import copy

    from ..shrink import _drop_chunks

    for cand in _drop_chunks(scn["ops"]):
        s = copy.deepcopy(scn)
        s["ops"] = copy.deepcopy(cand)
        yield s
    for i, m in enumerate(scn["minerals"]):
        for key, val in (("n_snap", 1), ("n_grains", 2), ("specials", False)):
            if m[key] != val:
                s = copy.deepcopy(scn)
                s["minerals"][i][key] = val
                yield s


RUNS = {"quick": 4000, "thorough": 150000}
RULE = ("one evaluation = one seeded history of 3-40 store operations over 1-4 NPZ archives in a "
        "private directory: save under one of 39 postfix names (prefixes / suffixes of each other, "
        "digits, underscores, names equal to the archive's own key stems, punctuation, blanks, "
        "path separators, unicode, names differing only in such characters, a non-string postfix, the falsy non-None postfixes '' and 0.0), whole-file saves, loads "
        "through Mineral.from_file and Mineral.load (into existing objects whose phase, fabric, "
        "regime, grain count and history differ), restarts (all in-memory objects dropped), rejected "
        "operations at arbitrary points (unequal snapshot counts, array sizes != grain count in the "
        "first or only in a later snapshot, non-NPZ names for both loaders; target fresh / existing "
        "archive / missing parent directory), minerals of all phase/fabric/regime ordinals with "
        "1-40 grains, 1-12 snapshots and float64 contents including NaN payloads, infinities, -0.0 "
        "and denormals. After every op every judged key of every archive is re-loaded and compared "
        "bytewise with the reference map; rejected ops must raise ValueError and leave the file-"
        "system snapshot unchanged. distinct = distinct op-kind sequence; non-trivial = an archive "
        "reached >= 2 postfixes or a rejected op hit an existing archive")
COMPONENTS = {
    "real": ["pydrex.Mineral.save / load / from_file", "numpy savez / load", "zipfile append path",
             "a real local file system (private temp directory, removed after the run)"],
    "simulator_owned": ["operation order, targets, postfix names, restart points, rejected operations",
                        "reference map (archive, postfix) -> saved state", "file-system snapshots"],
    "stub": [],
}
ASSUMPTIONS = [
    "judged: whole-file save loaded back with no other operation on that file in between; distinct-postfix saves into archives holding postfix entries only",
    "not judged (statement silent; generated and observed): whole-file save over a postfix archive, postfix append into a whole-file archive, postfix re-use, saving under a non-.npz name, crash consistency of the zip append path under injected I/O errors",
]
PROBES = ["archives_reaching_>=2_postfixes", "rejected_op_hit_existing_archive", "restarts",
          "loads_into_existing_object", "rejected_ops.unequal_counts", "rejected_ops.size_mismatch",
          "rejected_ops.late_size_mismatch", "rejected_ops.non_npz_load", "rejected_target.missing_parent"]


def warmup():
    boot()


def coverage_floor(counters, n_done):
    if n_done == 0 or counters.get("loads_compared", 0) == 0:
        return "nothing loaded back"
    return None

"""C01 — every stored snapshot is a valid texture, after any update history."""

import shutil
import tempfile

import numpy as np

from .. import gen as G
from .. import scen as S
from ..oracles import C01Monitor, snapshot_checks
from ..world import World

PROPERTY = "C01"
LEVEL = "exploration"

ACCEPTED = [G.R_MDISL] * 8 + [G.R_YIELD] * 3 + [G.R_MINV, G.R_MAXV, G.R_MDIFF]

SIMPLE_FAULTS = ["L_raises", "position_raises", "solver_failed", "L_nonfinite"]


def generate(seed, tier="quick"):
    rng = G.rng_of("C01", seed)
    big = tier == "thorough" and rng.random() < 0.03
    n_choices = [128, 256, 600] if big else None
    # a share of runs in flows that are exactly stagnant over whole update intervals (L == 0
    # everywhere, or zero outside a time gate): "any finite velocity-gradient history" includes
    # a paused flow, and an accepted update over it still appends exactly one snapshot
    stagnant = rng.random() < 0.12
    world = S.gen_world(rng, regimes=ACCEPTED, n_choices=n_choices,
                        flow_families=["zero", "gated", "gated", "const"] if stagnant else None)
    # regime fields switching in time (accepted regimes only)
    if rng.random() < 0.2:
        r0, r1 = rng.choice(ACCEPTED), rng.choice(ACCEPTED)
        world["regime_fields"].append({"kind": "switch", "at": rng.uniform(0.1, 1.5),
                                       "r0": r0, "r1": r1})
        for m in world["minerals"]:
            if rng.random() < 0.6:
                m["regime_field"] = 0
    # default-constructed minerals in a share of runs (C01.init)
    for m in world["minerals"]:
        if rng.random() < 0.15:
            m["ctor"] = "default"
            m["seed"] = rng.randrange(1 << 31)
    long_hist = rng.random() < (0.08 if tier == "thorough" else 0.03)
    ops = S.gen_history_ops(
        rng, world,
        n_max=100 if long_hist else None,
        total=rng.choice([5.0, 10.0]) if long_hist else None,
        restart_share=0.08 if rng.random() < 0.4 else 0.0,
    )
    if big:
        # hundreds of grains cost ~1 ms per right-hand-side evaluation: a short history of short
        # intervals keeps such a run well inside the per-run watchdog
        ops = [dict(o, t1=o["t0"] + min(o["t1"] - o["t0"], 0.25)) if o["op"] == "update" else o
               for o in ops[:4]]
    # a share of bulk updates: replace an op by an update_all on minerals sharing an env
    if len(world["minerals"]) > 1 and rng.random() < 0.3:
        ops = _with_bulk(rng, world, ops)
    # sprinkle faults
    if rng.random() < 0.35:
        for op in ops:
            if op["op"] == "update" and rng.random() < 0.2:
                op["fault"] = {"kind": rng.choice(SIMPLE_FAULTS), "at_call": rng.randrange(10_000)}
            elif op["op"] == "update_all" and rng.random() < 0.3:
                # a bulk update that fails part-way: minerals before the failing one have
                # appended one snapshot, the failing one and those after it none
                op["fault"] = {"kind": rng.choice(["L_raises", "position_raises"]),
                               "at_call": rng.randrange(10_000)}
        ops = _retry_after_faults(ops)
    # bulk updates of minerals whose histories have DIFFERENT lengths by now, some failing
    # part-way (a later mineral's update raises)
    if len(world["minerals"]) >= 2 and not big and rng.random() < 0.3:
        T = 3.0
        for _ in range(rng.randint(1, 3)):
            order = list(range(len(world["minerals"])))
            rng.shuffle(order)
            order = order[: rng.randint(2, len(order))]
            b = {"op": "update_all", "ms": order, "t0": T, "t1": T + rng.choice([0.05, 0.2, 0.5]),
                 "flow": 0, "path": 0, "params": 0, "F_from": order[0]}
            if rng.random() < 0.6:
                b["fault"] = {"kind": rng.choice(["L_raises", "position_raises"]),
                              "at_call": rng.randrange(10_000)}
            ops.append(b)
            T = b["t1"]
    # overlapped caller threads at the end of the history (each caller advances its own mineral)
    if len(world["minerals"]) >= 2 and not big and rng.random() < 0.15:
        last_t = {}
        bulk_ms = set()
        for op in ops:
            if op["op"] == "update_all":
                for m in op["ms"]:
                    last_t[m] = max(last_t.get(m, 0.0), op["t1"])
            elif op.get("m") is not None and "t1" in op:
                last_t[op["m"]] = max(last_t.get(op["m"], 0.0), op["t1"])
        for _ in range(rng.randint(1, 3)):
            ms = rng.sample(range(len(world["minerals"])), 2)
            intervals, faults = [], {}
            for m in ms:
                a = last_t.get(m, 0.0)
                b = a + rng.choice([0.05, 0.2, 0.5])
                intervals.append([a, b])
                last_t[m] = b
            if rng.random() < 0.3:
                faults[str(rng.choice(ms))] = {"kind": rng.choice(SIMPLE_FAULTS),
                                               "at_call": rng.randrange(10_000)}
            ops.append({"op": "overlap", "ms": ms, "intervals": intervals, "faults": faults,
                        "baton": [rng.randrange(6) for _ in range(rng.randint(8, 120))]})
            for m, iv in zip(ms, intervals):
                if str(m) in faults:
                    ops.append({"op": "update", "m": m, "t0": iv[0], "t1": iv[1]})
    return {"property": PROPERTY, "engine": "world", "seed": seed, "world": world, "ops": ops}


def _with_bulk(rng, world, ops):
    """Turn the histories of the minerals that share env 0 into bulk updates."""
    group = [i for i, m in enumerate(world["minerals"]) if m["flow"] == world["minerals"][0]["flow"]]
    if len(group) < 2:
        return ops
    out = []
    first = group[0]
    for op in ops:
        if op["op"] == "update" and op["m"] in group:
            if op["m"] == first:
                order = group[:]
                rng.shuffle(order)
                out.append({"op": "update_all", "ms": order, "t0": op["t0"], "t1": op["t1"],
                            "flow": world["minerals"][first]["flow"],
                            "path": world["minerals"][first]["path"],
                            "params": world["minerals"][first]["params"]})
            # ops of the other group members are dropped (they advance with the bulk call)
        elif op["op"] == "restart" and op["m"] in group and op["m"] != first:
            continue
        else:
            out.append(op)
    return out


def _retry_after_faults(ops):
    out = []
    for op in ops:
        out.append(op)
        if op["op"] == "update" and op.get("fault"):
            clean = {k: v for k, v in op.items() if k != "fault"}
            out.append(clean)
        # (a failed bulk update is not retried: the minerals it did update have moved on)
    return out


def execute(scn):
    tmp = None
    if any(op["op"] == "restart" for op in scn["ops"]):
        tmp = tempfile.mkdtemp(prefix="pdsim_c01_")
    try:
        world = World(scn["world"], scratch_dir=tmp)
        mon = C01Monitor()
        mon.initial(world)
        # C01.init — default construction reproducible from its seed
        init_checked = 0
        for mrec in world.minerals:
            if mrec.spec.get("ctor") == "default":
                twin = World({**scn["world"], "minerals": [mrec.spec]}).minerals[0].obj
                init_checked += 1
                if not (np.array_equal(twin.orientations[0], mrec.obj.orientations[0])
                        and np.array_equal(twin.fractions[0], mrec.obj.fractions[0])):
                    mon.v("init", -1, mrec.idx, {"what": "same seed, different initial snapshot"})
        world.run(scn["ops"], after_op=mon.after_op)
    finally:
        if tmp:
            shutil.rmtree(tmp, ignore_errors=True)
    log = world.log
    n_upd = sum(len(r.get("sub") or [r]) for r in log if r["op"] in ("update", "update_all", "overlap"))
    fired = {}
    for r in log:
        if r.get("fault") and r.get("fired"):
            fired[r["fault"]] = fired.get(r["fault"], 0) + 1
    regimes = sorted({int(m.spec["regime"]) for m in world.minerals})
    states = set()
    for m in world.minerals:
        states.add(f"p{int(m.spec['phase'])}f{int(m.spec['fabric'])}r{int(m.spec['regime'])}"
                   f"n{min(len(m.obj.orientations), 8)}R{int(m.restored)}")
    stats = {
        "counters": {
            "update_calls": n_upd,
            "env.pydrex_get_pathline": sum(1 for p_ in world.paths if p_._interp is not None),
            "updates_ok": sum(1 for r in log if r["op"] in ("update", "update_all")
                              and r["status"] == "ok"),
            "snapshots_checked": mon.n_snap_checked,
            "restarts": sum(1 for r in log if r["op"] == "restart"),
            "overlap_ops": sum(1 for r in log if r["op"] == "overlap"),
            "bulk_updates": sum(1 for r in log if r["op"] == "update_all"),
            "bulk_updates_failed_part_way": sum(1 for r in log if r["op"] == "update_all"
                                                and r["status"] != "ok" and r.get("fired")),
            "init_checked": init_checked,
            "clean_attempted": mon.attempted_clean,
            "clean_completed": mon.completed,
            "long_history(>=50 updates)": int(max(m.completed for m in world.minerals) >= 50),
            "zero_volume_grain_present": int(any(
                np.any(m.ref[0][1] == 0.0) for m in world.minerals)),
            **{f"fault_fired.{k}": v for k, v in fired.items()},
            **{f"rejected.{k}": v for k, v in mon.rejected.items()},
        },
        "sim_strain": float(sum(m.strain for m in world.minerals)),
        "max_ratio": mon.max_ratio,
        "maxima": {"orthonormality_over_bound.rotation<=6rad": mon.max_ratio,
                   "orthonormality_over_bound.rotation>6rad": getattr(mon, "max_ratio_large_rotation", 0.0)},
        "sig": S.schedule_signature(scn["ops"]),
        "nontrivial": mon.n_snap_checked >= 2,
        "states": sorted(states),
        "regimes": regimes,
    }
    return {"verdicts": mon.verdicts, "digest": world.digest(), "stats": stats}


def shrink_candidates(scn):
    from ..shrink import generic_world_candidates

    yield from generic_world_candidates(scn)


RUNS = {"quick": 3000, "thorough": 50000}
RULE = ("one evaluation = one seeded world (1-3 minerals, phase/fabric/regime/flow/path/params/"
        "texture/volumes/solver-tolerance/clock-rate all drawn per run) driven through a seeded "
        "history of update / update_all / restart / faulted-update ops; all C01 clauses are "
        "checked on every mineral after every op. distinct = distinct schedule signature "
        "(sequence of op kind, mineral, fault kind); non-trivial = at least two appended "
        "snapshots were validated in the run")
COMPONENTS = {
    "real": ["pydrex.Mineral.update_orientations", "pydrex.update_all", "pydrex.core.derivatives",
             "pydrex.utils.apply_gbs/extract_vars", "scipy LSODA", "Mineral.save/from_file (restart ops)",
             "pydrex.velocity.simple_shear_2d/cell_2d gradients (a share of runs)"],
    "simulator_owned": ["velocity-gradient / pathline / regime callables", "partition of time",
                        "interleaving of minerals", "fault instants", "clock rate"],
    "stub": [],
}
ASSUMPTIONS = [
    "sampling, not proof: seeds explored only",
    "scipy LSODA trusted as a black box",
    "updates that raise without an injected fault are counted as rejected (statement quantifies over accepted updates)",
]
RUN_TIMEOUT_S = 600
PROBES = ["restarts", "overlap_ops", "bulk_updates", "bulk_updates_failed_part_way", "init_checked", "long_history(>=50 updates)",
          "zero_volume_grain_present", "fault_fired.L_raises", "fault_fired.solver_failed"]


def warmup():
    from ..warm import warm_world

    warm_world()


def coverage_floor(counters, n_done):
    att = counters.get("clean_attempted", 0)
    if att and counters.get("clean_completed", 0) < 0.5 * att:
        return (f"only {counters.get('clean_completed', 0)} of {att} fault-free updates completed")
    if n_done == 0:
        return "no run completed"
    return None

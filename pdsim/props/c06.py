"""C06 — the returned deformation gradient is the solution of dF/dt = L(t, x(t)).F
(refinement against an independent reference integrator along the same schedule)."""

import copy

import numpy as np

from .. import gen as G
from .. import scen as S
from ..world import World

PROPERTY = "C06"
LEVEL = "exploration"

REGIMES = [G.R_MDISL] * 6 + [G.R_YIELD] * 2 + [G.R_MINV, G.R_MAXV, G.R_MDIFF]


def generate(seed, tier="quick"):
    rng = G.rng_of("C06", seed)
    if rng.random() < 0.18:
        return _gen_compact(rng, seed)
    shared = rng.random() < 0.5
    world = S.gen_world(
        rng, regimes=REGIMES, shared_env=shared,
        n_minerals=rng.choice([1, 2, 2, 3, 4]) if shared else None,
        flow_families=["const"] * 3 + ["periodic"] * 2 + ["posdep"] * 3 +
                      ["pydrex_simple_shear", "pydrex_cell", "pydrex_cell"],
        n_choices=[2, 3, 4, 5, 8, 8, 16, 32, 64],
    )
    for m in world["minerals"]:
        if rng.random() < 0.7:
            m["F0"] = G.gen_F0(rng)
    if rng.random() < 0.15:
        world["regime_fields"].append({"kind": "switch", "at": rng.uniform(0.1, 1.0),
                                       "r0": rng.choice(REGIMES), "r1": rng.choice(REGIMES)})
        for m in world["minerals"]:
            m["regime_field"] = 0
    long_hist = rng.random() < 0.05
    ops = S.gen_history_ops(rng, world, n_max=100 if long_hist else None,
                            total=rng.choice([4.0, 8.0]) if long_hist else None)
    if shared and len(world["minerals"]) > 1 and rng.random() < 0.7:
        ops = _bulk_history(rng, world)
    # intervals running backwards in time (un-straining, stepping back along a pathline):
    # either a forward-then-backward round trip or individual reversed calls
    c = rng.random()
    if c < 0.12:
        back = [dict(o, t0=o["t1"], t1=o["t0"]) for o in reversed(ops)]
        ops = ops + back
    elif c < 0.2:
        ops = [dict(o, t0=o["t1"], t1=o["t0"]) for o in reversed(ops)]
    return {"property": PROPERTY, "engine": "world", "seed": seed, "world": world, "ops": ops}


def _gen_compact(rng, seed):
    """Velocity-gradient fields with compact support: a pulse in time, or a shear band in
    space crossed by the particle.  One update of the history spans the support, so L is
    exactly zero at both ends of that update and non-zero in between; the other updates lie
    in the rigid (L == 0) regions.  In the 'tight' variant (85%) the support starts within
    the first few percent of the spanning interval, where the solver's first step lands; in
    the 'deep' variant the support lies well inside (the adaptive solver may step over it:
    known finding KF-C06-compact-support)."""
    nm = rng.choice([1, 1, 2])
    world = S.gen_world(rng, regimes=REGIMES, shared_env=True, n_minerals=nm,
                        flow_families=[rng.choice(["pulse", "band"])],
                        n_choices=[2, 3, 4, 8, 16])
    for m in world["minerals"]:
        if rng.random() < 0.7:
            m["F0"] = G.gen_F0(rng)
    parts = G.partition(rng, 0.0, rng.choice([1.0, 2.0, 3.0]), n_max=rng.choice([1, 2, 3, 4]),
                        style=rng.choice(["uniform", "random", "single"]))
    j = rng.randrange(len(parts))
    t0, t1 = parts[j]
    span = t1 - t0
    deep = rng.random() < 0.15
    if deep:
        d0, d1 = rng.uniform(0.2, 0.4), rng.uniform(0.2, 0.4)
    else:
        d0, d1 = rng.choice([0.0, 0.01, 0.03]), rng.choice([0.0, 0.01, 0.03, 0.2])
    a, b = t0 + d0 * span, t1 - d1 * span
    fl = world["flows"][0]
    if fl["family"] == "pulse":
        fl["gate"] = [a, b]
    else:
        ax, w, c = fl["axis"], fl["w"], fl["c"]
        side = rng.choice([-1.0, 1.0])
        v_ax = 2 * w * side / (b - a)
        x0 = [rng.uniform(-0.3, 0.3) for _ in range(3)]
        x0[ax] = c - side * w - v_ax * a
        v = [rng.uniform(-0.05, 0.05) for _ in range(3)]
        v[ax] = v_ax
        world["paths"][0] = {"kind": "line", "x0": x0, "v": v}
    ops = []
    for (x, y) in parts:
        if nm > 1:
            order = list(range(nm))
            rng.shuffle(order)
            ops.append({"op": "update_all", "ms": order, "t0": x, "t1": y, "flow": 0, "path": 0,
                        "params": 0})
        else:
            ops.append({"op": "update", "m": 0, "t0": x, "t1": y})
    return {"property": PROPERTY, "engine": "world", "seed": seed, "world": world, "ops": ops,
            "compact": "deep" if deep else "tight"}


def _bulk_history(rng, world):
    nm = len(world["minerals"])
    T = rng.choice([0.3, 1.0, 2.0, 3.0])
    parts = G.partition(rng, 0.0, T, n_max=rng.choice([3, 6, 12]))
    ops = []
    for a, b in parts:
        order = list(range(nm))
        rng.shuffle(order)
        if rng.random() < 0.3:
            order = order[: rng.randint(1, nm)]
        # all minerals must advance together for a meaningful common F: keep full list mostly
        ops.append({"op": "update_all", "ms": list(range(nm)) if rng.random() < 0.5 else
                    rng.sample(range(nm), nm), "t0": a, "t1": b, "flow": 0, "path": 0,
                    "params": 0})
    return ops


def call_bound(N, strain):
    return 5e-3 + 1e-3 * (N + 2.0 * strain)


def atol_estimate(F_in, F_ref):
    """Relative error that PyDRex's choice of absolute solver tolerance (1e-4 + 1e-6|F_start|)
    alone can produce in the result: the flow map Phi = F_ref . F_in^-1 amplifies an absolute
    error of 1e-4 by its largest singular value, and the error is measured relative to
    max|F_ref|.  O(1e-4) for forward straining from an O(1) start; large when the result is
    much smaller than the start (compressing flows) or when small components of the start are
    blown up again (un-straining on intervals running backwards in time)."""
    try:
        Phi = F_ref @ np.linalg.inv(F_in)
        smax = float(np.linalg.svd(Phi, compute_uv=False)[0])
    except Exception:  # noqa: BLE001
        return float("inf")
    return 1e-4 * max(1.0, smax) / max(float(np.abs(F_ref).max()), 1e-300)


class C06Monitor:
    def __init__(self):
        self.verdicts = []
        self.c = {}
        self.maxima = {}
        self.cum = {}  # mineral idx -> (F_ref_cumulative, N, strain)
        self.compact = False
        self.reversed = False
        self.peak = {}
        self.hist = {}
        self.rot = {}

    def v(self, clause, i, m, detail):
        self.verdicts.append({"property": PROPERTY, "clause": clause, "op": i, "m": m,
                              "detail": detail})

    def inc(self, k, n=1):
        self.c[k] = self.c.get(k, 0) + n

    def mx(self, k, val):
        self.maxima[k] = max(self.maxima.get(k, 0.0), float(val))

    def start(self, world):
        for m in world.minerals:
            self.cum[m.idx] = [m.F.copy(), 0, 0.0]

    def after_op(self, world, i, op, rec):
        if rec["op"] not in ("update", "update_all") or rec["status"] != "ok":
            if rec["op"] in ("update", "update_all"):
                self.inc(f"rejected.{rec['exc']}")
            return
        flow, path = world.flows[rec["flow"]], world.paths[rec["path"]]
        F_in, F_out = rec["F_in"], rec["F_out"]
        eps = rec["strain"]
        ms = [rec["m"]] if rec["op"] == "update" else rec["ms"]
        m0 = ms[0]
        if not isinstance(F_out, np.ndarray) or F_out.shape != (3, 3) or \
                not np.all(np.isfinite(F_out)):
            self.v("per_call", i, m0, {"what": "returned F is not a finite 3x3 array"})
            return
        Fref = world.ref_F(flow, path, op["t0"], op["t1"], F_in)
        rel = float(np.abs(F_out - Fref).max() / np.abs(Fref).max())
        b = call_bound(1, eps)
        est = atol_estimate(F_in, Fref)
        if est / b >= 0.03:
            self.inc("calls_ill_conditioned_for_atol_1e-4")
        self.inc("calls_checked")
        self.inc(f"calls_checked.{flow.family}")
        if op["t1"] < op["t0"]:
            self.inc("calls_checked.reversed_interval")
            self.reversed = True
        if flow.family in ("pulse", "band") and rec["steps"] >= 1:
            self.compact = True
        if flow.family in ("pulse", "band") and eps > 0:
            z0 = not np.any(flow.base(op["t0"], path.base(op["t0"])))
            z1 = not np.any(flow.base(op["t1"], path.base(op["t1"])))
            if z0 and z1:
                self.inc("calls_with_L_zero_at_both_ends_but_not_between")
        if rec["op"] == "update_all":
            self.inc("bulk_calls_checked")
        tag = ".compact_support" if flow.family in ("pulse", "band") else \
            (".ill_conditioned_for_atol" if est / b >= 0.03 else "")
        self.mx("per_call_rel_over_bound" + tag, rel / b)
        if rel > b:
            self.v("per_call" if rec["op"] == "update" else "bulk", i, m0,
                   {"rel": rel, "bound": b, "strain": eps, "family": flow.family,
                    "reversed_interval": bool(op["t1"] < op["t0"]),
                    "atol_estimate_over_bound": est / b,
                    "rigid_rotation_call_rad": world.rotation_over(flow, path, op["t0"], op["t1"]),
                    "solver_steps": rec["steps"], "L_nonzero_seen": rec.get("L_nonzero_seen"),
                    "F_out": F_out.tolist(), "F_ref": Fref.tolist()})
        # determinant: det F_out = det F_in * exp(int tr L)
        det_ref = float(np.linalg.det(F_in) * np.exp(world.trace_integral(flow, path, op["t0"], op["t1"])))
        det_tol = 18.0 * b * float(np.abs(Fref).max()) ** 3 + 1e-9
        d = abs(float(np.linalg.det(F_out)) - det_ref)
        self.mx("det_err_over_tol" + tag, d / det_tol)
        if d > det_tol:
            self.v("det", i, m0, {"det": float(np.linalg.det(F_out)), "det_ref": det_ref,
                                  "tol": det_tol, "family": flow.family, "solver_steps": rec["steps"],
                                  "strain": eps, "reversed_interval": bool(op["t1"] < op["t0"]),
                                  "atol_estimate_over_bound": est / b})
        # cumulative refinement along the F chain (a bulk update continues the chain of
        # the mineral whose F was handed in and hands the result to every mineral in the list)
        lead = ms[0] if rec["op"] == "update" or op.get("F_from") is None else op["F_from"]
        cl = self.cum[lead]
        newref = world.ref_F(flow, path, op["t0"], op["t1"], cl[0])
        N, st = cl[1] + 1, cl[2] + eps
        # conditioning of the chain: an absolute error of 1e-4 committed at ANY earlier point j
        # of the history is amplified by the flow map from j to now
        hist = self.hist.setdefault(lead, [cl[0].copy()])
        amp = 1.0
        for Fj in hist[-400:]:
            try:
                amp = max(amp, float(np.linalg.svd(newref @ np.linalg.inv(Fj), compute_uv=False)[0]))
            except Exception:  # noqa: BLE001
                amp = float("inf")
        hist.append(newref.copy())
        est_chain = 1e-4 * amp / max(float(np.abs(newref).max()), 1e-300)
        pk = max(self.peak.get(lead, 0.0), est / b, est_chain / call_bound(N, st))
        rot_total = self.rot.get(lead, 0.0) + world.rotation_over(flow, path, op["t0"], op["t1"])
        for m in ms:
            self.cum[m] = [newref.copy(), N, st]
            self.peak[m] = pk
            self.hist[m] = hist
            self.rot[m] = rot_total
        relc = float(np.abs(F_out - newref).max() / np.abs(newref).max())
        bc = call_bound(N, st)
        self.mx("cumulative_rel_over_bound" + (".compact_support" if self.compact else
                                               ".ill_conditioned_for_atol" if pk >= 0.03 else ""),
                relc / bc)
        if relc > bc:
            self.v("cumulative", i, lead, {"rel": relc, "bound": bc, "N": N, "strain": st,
                                           "family": flow.family, "solver_steps": rec["steps"],
                                           "compact_support_in_history": self.compact,
                                           "reversed_interval_in_history": self.reversed,
                                           "atol_estimate_over_bound": pk,
                                           "rigid_rotation_total_rad": rot_total})


def _merged_ops(scn):
    """Same intervals executed as one call per mineral (split vs whole)."""
    ops = scn["ops"]
    if any(op["op"] != "update" for op in ops):
        return None
    per = {}
    for op in ops:
        per.setdefault(op["m"], []).append(op)
    out = []
    for m, lst in per.items():
        for a, b in zip(lst, lst[1:]):
            if a["t1"] != b["t0"]:
                return None
        if len(lst) < 2:
            continue
        o = dict(lst[0])
        o["t1"] = lst[-1]["t1"]
        out.append(o)
    return out or None


def execute(scn):
    world = World(scn["world"])
    mon = C06Monitor()
    mon.start(world)
    world.run(scn["ops"], after_op=mon.after_op)
    # split vs whole
    merged = _merged_ops(scn)
    if merged and not world.spec.get("regime_fields"):
        w2 = World(copy.deepcopy(scn["world"]))
        w2.run(merged)
        for r in w2.log:
            m = r["m"]
            if r["status"] != "ok":
                continue
            part_ok = [x for x in world.log if x["op"] == "update" and x["m"] == m]
            if not part_ok or any(x["status"] != "ok" for x in part_ok):
                continue
            F_split = world.minerals[m].F
            F_whole = r["F_out"]
            N = len(part_ok)
            st = sum(x["strain"] for x in part_ok)
            tol = call_bound(N, st) + call_bound(1, st)
            rel = float(np.abs(F_split - F_whole).max() / np.abs(F_whole).max())
            mon.inc("split_vs_whole_checked")
            fam0 = world.flows[part_ok[0]["flow"]].family
            mon.mx("split_rel_over_tol" + (".compact_support" if fam0 in ("pulse", "band") else
                                           ".ill_conditioned_for_atol" if mon.peak.get(m, 0.0) >= 0.03 else ""),
                   rel / tol)
            if rel > tol:
                fam = world.flows[part_ok[0]["flow"]].family
                mon.v("split_vs_whole", len(scn["ops"]), m,
                      {"rel": rel, "tol": tol, "N": N, "strain": st, "family": fam,
                       "reversed_interval_in_history": bool(mon.reversed),
                       "atol_estimate_over_bound": mon.peak.get(m, 0.0),
                       "solver_steps": min([r["steps"]] + [x["steps"] for x in part_ok])})
    c = mon.c
    c["update_calls"] = len(world.log)
    c["env.pydrex_get_pathline"] = sum(1 for p_ in world.paths if p_._interp is not None)
    c["env.pydrex_get_pathline_failed_fallback_static"] = sum(
        1 for p_ in world.paths if p_.spec["kind"] == "pydrex_pathline" and p_._interp is None)
    fams = sorted({f.family for f in world.flows})
    stats = {
        "counters": c, "maxima": mon.maxima,
        "sim_strain": float(sum(m.strain for m in world.minerals)),
        "sig": S.schedule_signature(scn["ops"]) + "|" + ",".join(fams),
        "nontrivial": c.get("calls_checked", 0) >= 2,
        "states": sorted({f"{f}|F0{int('F0' in m.spec)}|r{int(m.spec['regime'])}|p{int(m.spec['phase'])}"
                          for m in world.minerals for f in fams}),
    }
    return {"verdicts": mon.verdicts, "digest": world.digest(), "stats": stats}


def shrink_candidates(scn):
    from ..shrink import generic_world_candidates

    yield from generic_world_candidates(scn)


RUNS = {"quick": 2500, "thorough": 45000}
RULE = ("one evaluation = one seeded world (non-identity starting F in 70% of minerals; constant "
        "non-commuting, time-periodic, position-dependent-along-a-moving-pathline and PyDRex's own "
        "simple-shear/cell flows; all accepted regimes; seeded partitions; bulk update_all histories "
        "in seeded orders) with every returned F refined against an independent reference "
        "(expm / DOP853 rtol 1e-11) per call, cumulatively, in determinant, and split-vs-whole. "
        "distinct = distinct (schedule signature, flow families); non-trivial = >= 2 calls refined")
COMPONENTS = {
    "real": ["pydrex.Mineral.update_orientations", "pydrex.update_all", "scipy LSODA",
             "pydrex.velocity simple_shear_2d / cell_2d gradients (a share of runs)"],
    "simulator_owned": ["velocity-gradient and pathline callables", "partition", "interleaving",
                        "clock rate k"],
    "reference_model": ["scipy.linalg.expm for constant L; scipy DOP853 (rtol 1e-11, atol 1e-13) otherwise"],
    "stub": [],
}
ASSUMPTIONS = ["the reference integrator (expm / DOP853 at 1e-11) is exact for the purpose of a 5e-3 bound",
               "independence of phase/fabric/regime/grain count is implied by every mineral's F being "
               "refined against the same reference within the bound"]
PROBES = ["calls_checked.reversed_interval", "env.pydrex_get_pathline", "calls_checked.pulse", "calls_checked.band",
          "calls_with_L_zero_at_both_ends_but_not_between", "bulk_calls_checked", "split_vs_whole_checked", "calls_checked.posdep",
          "calls_checked.periodic", "calls_checked.pydrex_cell", "calls_checked.const"]


def warmup():
    from ..warm import warm_world

    warm_world(restart=False)


def coverage_floor(counters, n_done):
    if n_done == 0 or counters.get("calls_checked", 0) == 0:
        return "no call was refined"
    return None

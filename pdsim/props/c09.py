"""C09 — grain-boundary sliding: small grains are floored and do not rotate.

The `apply_gbs` seam is interposed; the oracle recomputes the expected stored
snapshot from the recorded inputs of the LAST interposed call of each update."""

import numpy as np

from .. import gen as G
from .. import scen as S
from ..world import World

PROPERTY = "C09"
LEVEL = "exploration"


def generate(seed, tier="quick"):
    rng = G.rng_of("C09", seed)
    mode = rng.choice(["hot"] * 6 + ["tie"] * 2 + ["chi0", "plain"])
    world = S.gen_world(
        rng, regimes=[G.R_MDISL] * 5 + [G.R_YIELD] * 2 + [G.R_MINV],
        n_choices=[2, 3, 4, 5, 6, 8, 8, 12, 16, 32] + ([128] if tier == "thorough" else []),
        hot_gbs=mode in ("hot", "tie"), tight_share=0.2,
    )
    if mode == "chi0":
        for p in world["paramsets"]:
            p["gbs_threshold"] = 0.0
    if mode == "tie":
        for m in world["minerals"]:
            chi = world["paramsets"][m["params"]]["gbs_threshold"]
            if chi > 0:
                m["volumes"] = {"kind": "at_threshold", "seed": rng.randrange(1 << 30),
                                "chi": chi, "n_tie": rng.randint(1, max(1, m["n_grains"] - 1))}
        if rng.random() < 0.5:
            for p in world["paramsets"]:
                p["gbm_mobility"] = 0.0  # fractions stay exactly where they are
    elif mode == "hot":
        for m in world["minerals"]:
            if rng.random() < 0.6:
                m["volumes"] = rng.choice([
                    {"kind": "dirichlet", "seed": rng.randrange(1 << 30), "alpha": rng.choice([0.1, 0.3, 1.0])},
                    {"kind": "dominant", "seed": rng.randrange(1 << 30), "share": rng.choice([0.5, 0.9])},
                    {"kind": "zeros", "seed": rng.randrange(1 << 30), "frac_zero": rng.choice([0.1, 0.3, 0.6])},
                ])
    ops = S.gen_history_ops(rng, world, total=rng.choice([0.5, 1.0, 2.0, 4.0, 8.0]),
                            n_max=rng.choice([3, 6, 12, 25, 50]),
                            restart_share=0.08 if rng.random() < 0.3 else 0.0)
    # the sliding threshold changes between updates (the driver rewrites the params dict)
    if mode != "chi0" and rng.random() < 0.3:
        for _ in range(rng.randint(1, 3)):
            ops.insert(rng.randrange(len(ops) + 1),
                       {"op": "set_param", "params": rng.randrange(len(world["paramsets"])),
                        "key": "gbs_threshold",
                        "value": rng.choice([0.0, 0.1, 0.3, 0.5, 0.9, rng.uniform(0, 0.9)])})
    if rng.random() < 0.15:
        for op in ops:
            op["gbs_keep_all"] = True
    return {"property": PROPERTY, "engine": "world", "seed": seed, "mode": mode,
            "world": world, "ops": ops}


def ulp_close(a, b, n_ulp=4):
    """Agreement to rounding: summation order (numba vs numpy) and the second
    renormalisation in extract_vars legitimately move results by a few ulp, so the
    tolerance is 1e-12 relative (the statement asks for floor-and-renormalise, not for a
    particular summation order)."""
    a = np.asarray(a, dtype=float)
    b = np.asarray(b, dtype=float)
    return bool(np.all(np.abs(a - b) <= 1e-12 * np.maximum(np.abs(a), np.abs(b)) + 1e-300))


class C09Monitor:
    def __init__(self):
        self.verdicts = []
        self.c = {}
        self.maxima = {}
        self.prev = {}

    def v(self, clause, i, m, detail):
        self.verdicts.append({"property": PROPERTY, "clause": clause, "op": i, "m": m,
                              "detail": detail})

    def inc(self, k, n=1):
        self.c[k] = self.c.get(k, 0) + n

    def start(self, world):
        for m in world.minerals:
            self.prev[m.idx] = (np.array(m.obj.orientations[-1], copy=True),
                                np.array(m.obj.fractions[-1], copy=True))

    def after_op(self, world, i, op, rec):
        if rec["op"] != "update":
            return
        m = rec["m"]
        mrec = world.minerals[m]
        o = mrec.obj
        if rec["status"] != "ok":
            self.inc(f"rejected.{rec['exc']}")
            return
        A_prev, f_prev = self.prev[m]
        A_st, f_st = o.orientations[-1], o.fractions[-1]
        self.prev[m] = (np.array(A_st, copy=True), np.array(f_st, copy=True))
        params = world.paramsets[rec["params"]]
        chi = float(params["gbs_threshold"])
        n = int(o.n_grains)
        thr = chi / n
        self.inc("updates_checked")
        g = rec["gbs"].get("last")
        if g is None:
            self.inc("unobserved_updates")
        else:
            self.inc("observed_updates")
            # inputs handed to the seam
            if g["n"] != n or float(g["chi"]) != chi:
                self.v("seam_inputs", i, m, {"n": int(g["n"]), "expected_n": n,
                                             "chi": float(g["chi"]), "expected_chi": chi})
            if g["A_prev"].shape != A_prev.shape or not np.array_equal(g["A_prev"], A_prev):
                self.v("reference_snapshot", i, m, {
                    "what": "orientations_prev handed to apply_gbs is not the snapshot at the "
                            "start of this update",
                    "equals_initial": bool(g["A_prev"].shape == mrec.ref[0][0].shape and
                                           np.array_equal(g["A_prev"], mrec.ref[0][0]))})
            f_in, A_in = g["f_in"], g["A_in"]
            mask = f_in < thr
            if mask.any():
                self.inc("updates_with_floored_grains")
                self.inc("grains_floored", int(mask.sum()))
            if thr > 0 and np.any(np.abs(f_in - thr) <= 4 * np.spacing(thr)):
                self.inc("near_tie_at_threshold")
            if thr > 0 and np.any(f_in == thr):
                self.inc("exact_tie_at_threshold")
            # masked grains: exactly the orientation at the start of the update
            if mask.any() and not np.array_equal(A_st[mask], A_prev[mask]):
                d = float(np.abs(A_st[mask] - A_prev[mask]).max())
                self.v("frozen", i, m, {"what": "a grain below the threshold did not keep its "
                                        "start-of-update orientation", "max_diff": d,
                                        "n_masked": int(mask.sum())})
            # unmasked grains keep their integrated orientation
            if (~mask).any() and not np.array_equal(A_st[~mask], A_in[~mask]):
                d = float(np.abs(A_st[~mask] - A_in[~mask]).max())
                self.v("unfrozen_keep", i, m, {"what": "a grain above the threshold lost its "
                                               "integrated orientation", "max_diff": d,
                                               "n_unmasked": int((~mask).sum())})
            exp = np.where(mask, thr, f_in)
            exp = exp / exp.sum()
            if not ulp_close(f_st, exp, 4):
                rel = float(np.max(np.abs(f_st - exp) / np.maximum(exp, 1e-300)))
                self.v("floor_renormalise", i, m, {"max_rel_diff": rel, "n_masked": int(mask.sum()),
                                                   "chi": chi, "n": n})
            if chi == 0.0:
                self.inc("chi0_updates")
            # grains that crossed the threshold inside this update
            crossed = mask & (f_prev >= thr)
            if crossed.any():
                self.inc("grains_crossed_threshold_in_update", int(crossed.sum()))
            if rec["gbs"].get("all"):
                self.inc("per_step_calls_recorded", len(rec["gbs"]["all"]))
                for e in rec["gbs"]["all"]:
                    if e["A_prev_id"] != g["A_prev_id"] and not np.array_equal(e["A_prev"], A_prev):
                        self.v("reference_snapshot", i, m, {"what": "a per-step call used another reference"})
                        break
        # derived clauses on the stored snapshot (independent of the seam)
        lo = chi / (n * (1.0 + chi))
        if f_st.min() < lo * (1 - 1e-12):
            self.v("min_fraction", i, m, {"min": float(f_st.min()), "bound": lo})
        if abs(float(f_st.sum()) - 1.0) > 1e-12:
            self.v("floor_renormalise", i, m, {"what": "fractions not renormalised",
                                               "sum": float(f_st.sum())})
        if g is not None:
            order = np.argsort(g["f_in"], kind="stable")
            fs = f_st[order]
            if np.any(np.diff(fs) < -1e-12 * fs[1:]):
                self.v("ordering", i, m, {"what": "ordering of grain volumes not preserved"})
            if chi == 0.0:
                if not np.array_equal(A_st, g["A_in"]) or not ulp_close(f_st, g["f_in"] / g["f_in"].sum(), 4):
                    self.v("chi_zero", i, m, {"what": "chi = 0 but a grain was frozen or floored"})


def execute(scn):
    import shutil
    import tempfile

    tmp = tempfile.mkdtemp(prefix="pdsim_c09_") if any(o["op"] == "restart" for o in scn["ops"]) else None
    try:
        world = World(scn["world"], scratch_dir=tmp)
        mon = C09Monitor()
        mon.start(world)
        world.run(scn["ops"], after_op=mon.after_op)
    finally:
        if tmp:
            shutil.rmtree(tmp, ignore_errors=True)
    c = mon.c
    c["update_calls"] = sum(1 for r in world.log if r["op"] == "update")
    c["restarts_through_store"] = sum(1 for r in world.log if r["op"] == "restart" and r["status"] == "ok")
    c["threshold_changed_between_updates"] = sum(1 for r in world.log if r["op"] == "set_param")
    stats = {
        "counters": c, "maxima": mon.maxima,
        "sim_strain": float(sum(m.strain for m in world.minerals)),
        "sig": scn["mode"] + "|" + S.schedule_signature(scn["ops"]) +
               f"|fl{min(c.get('grains_floored', 0), 50)}",
        "nontrivial": c.get("grains_floored", 0) > 0,
        "states": sorted({f"{scn['mode']}|floored{min(c.get('updates_with_floored_grains', 0), 5)}"
                          f"|crossed{min(c.get('grains_crossed_threshold_in_update', 0), 3)}"}),
    }
    return {"verdicts": mon.verdicts, "digest": world.digest(), "stats": stats}


def shrink_candidates(scn):
    from ..shrink import generic_world_candidates

    yield from generic_world_candidates(scn)


RUNS = {"quick": 2500, "thorough": 60000}
RULE = ("one evaluation = one seeded world and update history biased to push grains through "
        "chi/n_grains (high M*, chi in {0..0.9}, few grains, non-uniform volumes incl. exact zeros, "
        "exact-tie constructions, chi = 0); after every update the stored snapshot is compared with "
        "the value recomputed from the recorded inputs of the last interposed apply_gbs call "
        "(frozen grains bit-equal to the start-of-update snapshot, others bit-equal to the "
        "integrated orientation, fractions = floor-and-renormalise to 1e-12 relative, reference snapshot "
        "identity, min-fraction bound, ordering, chi = 0). distinct = distinct (mode, schedule "
        "signature, floored-grain count); non-trivial = at least one grain was floored in the run")
COMPONENTS = {
    "real": ["pydrex.Mineral.update_orientations", "pydrex.utils.apply_gbs (real compiled function, "
             "called through a recording wrapper)", "pydrex.utils.extract_vars", "scipy LSODA"],
    "simulator_owned": ["flows, pathlines, partition, interleaving", "apply_gbs seam (records copies "
                        "of inputs and outputs, passes through)"],
    "stub": [],
}
ASSUMPTIONS = ["'integrated volume fraction' = the fractions handed to apply_gbs by the last solver "
               "step of the update (the observation point named by the property)",
               "if an update reaches no interposed call only the derived clauses are judged; zero "
               "observed updates in a batch is a harness error"]
PROBES = ["restarts_through_store", "threshold_changed_between_updates", "updates_with_floored_grains", "grains_crossed_threshold_in_update",
          "near_tie_at_threshold", "exact_tie_at_threshold", "chi0_updates", "per_step_calls_recorded"]


def warmup():
    from ..warm import warm_world

    warm_world(restart=True)


def coverage_floor(counters, n_done):
    if n_done == 0:
        return "no run completed"
    if counters.get("observed_updates", 0) == 0:
        return "the apply_gbs seam was never reached: the oracle has nothing to judge"
    if counters.get("updates_with_floored_grains", 0) == 0:
        return "no grain was ever floored"
    return None

"""C05 — texture depends on the strain path, not on the strain rate.

Twin world whose clock runs kappa times faster: L'(t') = kappa * L(kappa * t'), every op
interval divided by kappa; same op list (partition, interleaving, faults, retries)."""

import copy

from .. import gen as G
from .. import scen as S
from ..twin import compare_traces, confirm_chain, run_traced

PROPERTY = "C05"
LEVEL = "exploration"


def tol_fn(N, strain):
    """'within solver tolerance': the accumulated ODE tolerance of the statement family
    (C01/C06).  Calibration (see DESIGN 4.3): default-solver twins agree to <= 1e-11,
    tight-solver twins (rtol 1e-10) to ~1e-10 with outliers of 1e-5 at strain >= 2, i.e.
    differences at the level of the solver tolerance amplified by the D-Rex dynamics."""
    return 2.0 * (5e-3 + 1e-3 * (N + 2.0 * strain))



def generate(seed, tier="quick"):
    rng = G.rng_of("C05", seed)
    world = S.gen_world(rng, regimes=[G.R_MDISL] * 4 + [G.R_YIELD], allow_aligned=False,
                        n_choices=[2, 3, 4, 5, 8, 8, 16, 32, 64], tight_share=0.4)
    tight = world["solver"]["tol"] == "tight"
    total = rng.choice([0.3, 0.5, 1.0, 2.0, 4.0, 6.0])
    ops = S.gen_history_ops(rng, world, total=total, n_max=rng.choice([2, 4, 8, 16, 40]),
                            restart_share=0.1 if rng.random() < 0.25 else 0.0)
    if rng.random() < 0.25:
        out = []
        for op in ops:
            if rng.random() < 0.25:
                f = dict(op)
                f["fault"] = {"kind": rng.choice(["L_raises", "position_raises", "solver_failed"]),
                              "at_call": rng.randrange(1 << 16)}
                out.append(f)
            out.append(op)
        ops = out
    k0 = world["transform"]["k"]
    c = rng.random()
    if c < 0.5:
        kappa = 2.0 ** rng.randint(-40, 40)
    else:
        kappa = 10 ** rng.uniform(-8, 8)
    k1 = k0 * kappa
    # keep the twin rate inside the documented range [1e-16, 1e3]
    if not (1e-16 <= k1 <= 1e3):
        k1 = k0 / kappa
    if not (1e-16 <= k1 <= 1e3):
        k1 = 1.0 if k0 != 1.0 else 1e-14
    return {"property": PROPERTY, "engine": "world", "seed": seed, "world": world, "ops": ops,
            "twin": {"kind": "timescale", "k": k1}}


NOISE_EPS = 1e-9


def execute(scn):
    res = _execute(scn)
    if res["verdicts"] and not confirm_chain(scn, _execute, lambda r: r["verdicts"], tol_fn,
                                            PROPERTY, res["stats"]["counters"], NOISE_EPS,
                                            twin_world=_twin_world):
        res["verdicts"] = []
    return res


def _twin_world(scn):
    specB = copy.deepcopy(scn["world"])
    specB["transform"] = dict(specB.get("transform") or {})
    specB["transform"]["k"] = scn["twin"]["k"]
    return specB


def _execute(scn):
    verdicts, counters, maxima = [], {}, {}
    wA, trA, _ = run_traced(scn["world"], scn["ops"])
    specB = _twin_world(scn)
    wB, trB, _ = run_traced(specB, scn["ops"])
    compare_traces(trA, trB, lambda m, A: A, lambda F: F, tol_fn,
                   PROPERTY, "timescale", verdicts, counters, maxima)
    tag = wA.solver.get("tol", "default")
    for k in [k for k in maxima if k.endswith("_diff_over_tol")]:
        maxima[f"{k}.{tag}_solver"] = maxima.pop(k)
    counters["update_calls"] = len(wA.log) + len(wB.log)
    kA, kB = wA.tr.k, wB.tr.k
    import math

    ratio = kB / kA
    pow2 = math.log2(ratio) == int(math.log2(ratio)) if ratio > 0 else False
    counters["kappa_power_of_two" if pow2 else "kappa_general"] = 1
    counters["geological_rate(k<1e-10)"] = int(min(kA, kB) < 1e-10)
    counters["faulted_updates"] = sum(1 for r in wA.log if r.get("fault"))
    counters["restarts_through_store"] = sum(1 for r in wA.log if r["op"] == "restart")
    stats = {
        "counters": counters, "maxima": maxima,
        "sim_strain": float(sum(m.strain for m in wA.minerals)),
        "sig": S.schedule_signature(scn["ops"]) + f"|k{math.floor(math.log10(kA))}>{math.floor(math.log10(kB))}",
        "nontrivial": counters.get("snapshots_compared", 0) >= 2,
        "states": sorted({f"dk{max(-20, min(20, round(math.log10(ratio))))}|{wA.solver.get('tol')}"}),
    }
    import hashlib

    dig = hashlib.sha256((wA.digest() + wB.digest()).encode()).hexdigest()
    return {"verdicts": verdicts, "digest": dig, "stats": stats}


def shrink_candidates(scn):
    from ..shrink import generic_world_candidates

    yield from generic_world_candidates(scn)
    if scn["twin"]["k"] != 1.0 and scn["world"]["transform"].get("k", 1.0) != 1.0:
        s = copy.deepcopy(scn)
        s["world"]["transform"]["k"] = 1.0
        yield s


RUNS = {"quick": 1500, "thorough": 18000}
RULE = ("one evaluation = one seeded world executed twice: at clock rate k and at rate k*kappa "
        "(kappa a power of two in half of the runs, log-uniform otherwise; rates kept in "
        "[1e-16, 1e3]), with the same seeded op list (partition, interleaving, faulted updates and "
        "retries); every stored snapshot and every returned F compared within twice the accumulated solver tolerance 5e-3 + 1e-3*(N + 2*strain); a default-solver discrepancy must persist with the tight solver (rtol 1e-10) to be reported (observed agreement is reported as tolerance_margin; comparisons differing by more than 1e-6 are counted as above_rounding_level). "
        "distinct = distinct (schedule signature, decade of k, decade of k'); non-trivial = at "
        "least two snapshots compared")
COMPONENTS = {
    "real": ["pydrex.Mineral.update_orientations", "pydrex.core.derivatives", "scipy LSODA"],
    "simulator_owned": ["the model clock (rate k), flows, pathlines, partition, interleaving, faults"],
    "stub": [],
}
ASSUMPTIONS = ["'within solver tolerance' is taken as twice the accumulated ODE tolerance 5e-3 + 1e-3*(N + 2*strain) (each world within the bound of the exact solution); a discrepancy seen with the default solver is reported only if it persists when both worlds are re-run with rtol 1e-10 / atol 1e-12",
               "a discrepancy must also persist when the initial textures of both worlds receive the same deterministic "
               "1e-9 perturbation (two variants): exactly symmetric grain pairs whose winner is decided by rounding "
               "noise are a knife edge of the numerics, not of the property; counted as knife_edge_not_reproduced_under_perturbation",
               "a discrepancy is not judged when the history amplifies a deterministic 1e-9 perturbation of the "
               "initial texture beyond a tenth of the tolerance (exponentially sensitive D-Rex dynamics at high "
               "M* and strain); counted as ill_conditioned_history_not_judged",
               "comparison of a mineral stops at an update in which the two worlds disagree on which "
               "grains are below the sliding threshold while their integrated fractions agree within "
               "tolerance (exact tie); counted as inconclusive_tie",
               "axis-aligned initial textures (exact zeros in the slip invariants) are not generated"]
PROBES = ["restarts_through_store", "kappa_power_of_two", "kappa_general", "geological_rate(k<1e-10)", "faulted_updates"]


def warmup():
    from ..warm import warm_world

    warm_world(restart=True, ints=False, regimes=(4, 6))


def coverage_floor(counters, n_done):
    if n_done == 0 or counters.get("snapshots_compared", 0) == 0:
        return "nothing compared"
    if counters.get("inconclusive_tie", 0) > 0.2 * counters.get("snapshots_compared", 1):
        return "too many inconclusive ties"
    return None

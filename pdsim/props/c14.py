"""C14 (batched clause) — misorientation_indices returns exactly the per-snapshot values,
in snapshot order, for any worker count or externally supplied pool (Engine B)."""

import hashlib

import numpy as np
from scipy.spatial.transform import Rotation

from .. import gen as G
from ..boot import boot
from ..simpool import SimPool

PROPERTY = "C14"
LEVEL = "exploration"

SYSTEMS = ["triclinic", "monoclinic", "orthorhombic", "tetragonal", "hexagonal", "rhombohedral"]


def _gen_call(rng):
    n_snap = rng.choice([0, 1, 2, 3, 4, 5, 6, 8, 10, 12])
    n_grains = rng.choice([2, 3, 5, 8, 13, 20, 40])
    W = rng.choice([1, 2, 2, 3, 4, 5, 7, 8, 12, 16])
    style = rng.choice(["heavy", "heavy", "uniform", "one_slow", "decreasing"])
    n_d = max(n_snap, 1)
    if style == "heavy":
        durations = [rng.paretovariate(1.1) for _ in range(n_d)]
    elif style == "uniform":
        durations = [1.0] * n_d
    elif style == "one_slow":
        durations = [1.0] * n_d
        durations[rng.randrange(n_d)] = 50.0
    else:
        durations = [float(n_d - j) for j in range(n_d)]
    stalls = {}
    if rng.random() < 0.3 and n_snap:
        stalls[str(rng.randrange(n_snap))] = rng.uniform(5, 100)
    return {
        "stack": {"n_snap": n_snap, "n_grains": n_grains, "seed": rng.randrange(1 << 30),
                  "kind": rng.choice(["random", "random", "clustered", "mixed"]),
                  "dup": rng.random() < 0.2, "runs": rng.random() < 0.25},
        "system": rng.choice(SYSTEMS[:5] * 3 + SYSTEMS[5:]),
        "bins": rng.choice([None, None, 10, 45, 90]),
        "path": rng.choice(["pool", "pool", "ncpus", "ncpus", "ray"]), "W": W,
        "pool": {"durations": durations, "stalls": stalls,
                 "feed_depth": rng.choice([None, None, 0, 1, 3]),
                 "default_chunksize": rng.choice([1, 1, 1, 2, 3])},
        "ray_order_seed": rng.randrange(1 << 30),
        "reuse_pool": rng.random() < 0.6,
        "ncpus_default": rng.random() < 0.15,
    }


def generate(seed, tier="quick"):
    """A history of 1-4 batched calls; an externally supplied pool may be reused by later
    calls (other stacks, other lattice systems, other bin counts)."""
    rng = G.rng_of("C14", seed)
    n_calls = rng.choice([1, 1, 2, 2, 3, 4])
    calls = [_gen_call(rng) for _ in range(n_calls)]
    if n_calls > 1 and rng.random() < 0.5:
        # same stack and bins through another lattice system (results must follow the system)
        for c in calls[1:]:
            if rng.random() < 0.6:
                c["stack"] = dict(calls[0]["stack"])
                c["bins"] = calls[0]["bins"]
    return {"property": PROPERTY, "engine": "simpool", "seed": seed, "calls": calls}


def build_stack(spec):
    n, g = spec["n_snap"], spec["n_grains"]
    rng = np.random.default_rng(spec["seed"])
    snaps = []
    for k in range(n):
        kind = spec["kind"]
        if kind == "mixed":
            kind = ["random", "clustered"][k % 2]
        s = int(rng.integers(0, 1 << 30))
        if kind == "random":
            A = Rotation.random(g, random_state=s).as_matrix()
        else:
            R0 = Rotation.random(random_state=s)
            rv = np.random.default_rng(s).normal(scale=0.05 * (k + 1), size=(g, 3))
            A = (Rotation.from_rotvec(rv) * R0).as_matrix()
        snaps.append(A)
    if spec.get("dup") and n >= 3:
        snaps[-1] = snaps[0].copy()
    if spec.get("runs") and n >= 2:
        # consecutive repeats (a pathline crossing a stagnant region records identical textures)
        r2 = np.random.default_rng(spec["seed"] + 1)
        k = 0
        while k < n:
            ln = int(r2.integers(1, 5))
            for j in range(k + 1, min(k + ln, n)):
                snaps[j] = snaps[k].copy()
            k += ln
    if n == 0:
        return np.empty((0, g, 3, 3))
    return np.stack(snaps)


class FakeRay:
    """Stub of the three Ray calls PyDRex uses; tasks run when `get` is called, in a
    seeded order; `get` returns values in the order of the list it was given (Ray's
    documented behaviour)."""

    def __init__(self, func, order_seed, log):
        self.func = func
        self.order_seed = order_seed
        self.log = log

    class Ref:
        def __init__(self, obj):
            self.obj = obj

    class Future:
        def __init__(self, thunk):
            self.thunk = thunk
            self.value = None
            self.done = False

    def put(self, obj):
        return FakeRay.Ref(obj)

    def get(self, futures):
        single = not isinstance(futures, (list, tuple))
        lst = [futures] if single else list(futures)
        order = list(np.random.default_rng(self.order_seed).permutation(len(lst)))
        self.log["completion_order"] = [int(j) for j in order]
        for j in order:
            f = lst[j]
            if not f.done:
                f.value = f.thunk()
                f.done = True
        vals = [f.value for f in lst]
        return vals[0] if single else vals


def _scalar_values(call):
    """The per-snapshot values: the scalar function applied snapshot by snapshot."""
    import pydrex.diagnostics as pdiag
    from pydrex import geometry as geo

    system = getattr(geo.LatticeSystem, call["system"])
    out = []
    for s in build_stack(call["stack"]):
        try:
            out.append(float(pdiag.misorientation_index(s, system, call["bins"])))
        except Exception as e:  # noqa: BLE001
            return {"exc": type(e).__name__}
    return {"values": out}


def _pristine_scalar_values(call):
    """Evaluate the scalar function in a child forked from the state this run started in,
    i.e. with no batched call and no other lattice system evaluated before: if the scalar
    function is the pure function it is documented to be, this changes nothing; if a change
    gives it (or the worker function) memory, long-lived workers and the caller drift apart
    from these values."""
    import os
    import pickle

    r, w = os.pipe()
    pid = os.fork()
    if pid == 0:
        try:
            os.close(r)
            try:
                res = _scalar_values(call)
            except BaseException as e:  # noqa: BLE001
                res = {"exc": "child:" + type(e).__name__}
            with os.fdopen(w, "wb") as fh:
                fh.write(pickle.dumps(res))
        finally:
            os._exit(0)
    os.close(w)
    with os.fdopen(r, "rb") as fh:
        data = fh.read()
    os.waitpid(pid, 0)
    return pickle.loads(data) if data else {"exc": "child died"}


def execute(scn):
    boot()
    verdicts, c = [], {}
    h = hashlib.sha256()
    shared_pool = {"pool": None, "log": None}
    sigs = []
    any_reordered = False
    states = set()
    # expected values of every call first, each from the pristine state of this run
    pristine = [_pristine_scalar_values(call) for call in scn["calls"]]
    for k, call in enumerate(scn["calls"]):
        call = dict(call, _expected=pristine[k])
        r = _one_call(call, k, shared_pool, verdicts, c)
        h.update(r["digest"].encode())
        sigs.append(r["sig"])
        any_reordered = any_reordered or r["reordered"]
        states.add(r["state"])
    c["calls"] = len(scn["calls"])
    c[f"history_len.{len(scn['calls'])}"] = 1
    h.update(repr([(x["clause"], x["op"], sorted(x["detail"].items(), key=str)) for x in verdicts]).encode())
    stats = {
        "counters": c, "maxima": {}, "sim_strain": 0.0, "sig": ";".join(sigs),
        "nontrivial": any_reordered,
        "states": sorted(states),
    }
    return {"verdicts": verdicts, "digest": h.hexdigest(), "stats": stats}


def _one_call(scn, k, shared_pool, verdicts, c):
    import pydrex.diagnostics as pdiag
    from pydrex import geometry as geo

    system = getattr(geo.LatticeSystem, scn["system"])
    stack = build_stack(scn["stack"])
    bins = scn["bins"]
    # expected: the scalar function, snapshot by snapshot, in order (pristine state)
    exp_doc = scn.get("_expected") or _scalar_values(scn)
    expected = exp_doc.get("values", [])
    scalar_exc = exp_doc.get("exc")
    log = {}
    submitted_items = []

    def v(clause, detail):
        verdicts.append({"property": PROPERTY, "clause": clause, "op": k, "m": None, "detail": detail})

    saved = (pdiag.Pool, pdiag.HAS_RAY, getattr(pdiag, "ray", None), getattr(pdiag, "_dstr", None))
    factory_calls = []
    out = exc = None
    pcfg = scn["pool"]
    try:
        try:
            if scn["path"] == "pool":
                if scn.get("reuse_pool") and shared_pool["pool"] is not None:
                    pool = shared_pool["pool"]
                    log = shared_pool["log"]
                    log["completion_order"] = []
                    c["external_pool_reused"] = c.get("external_pool_reused", 0) + 1
                else:
                    pool = SimPool(scn["W"], log=log, **pcfg)
                    shared_pool["pool"], shared_pool["log"] = pool, log
                n_before = len(log.get("items", []))
                out = pdiag.misorientation_indices(stack, system, bins=bins, pool=pool)
                submitted_items = log.get("items", [])[n_before:]
            elif scn["path"] == "ncpus":
                def factory(processes=None, *a, **kw):
                    factory_calls.append(processes)
                    return SimPool(processes, log=log, **pcfg)

                pdiag.Pool = factory
                if scn.get("ncpus_default"):
                    # ncpus=None: PyDRex chooses the worker count itself
                    out = pdiag.misorientation_indices(stack, system, bins=bins)
                    c["ncpus_left_to_pydrex"] = c.get("ncpus_left_to_pydrex", 0) + 1
                else:
                    out = pdiag.misorientation_indices(stack, system, bins=bins, ncpus=scn["W"])
                submitted_items = log.get("items", [])
            else:
                fake = FakeRay(None, scn["ray_order_seed"], log)

                class _Remote:
                    @staticmethod
                    def remote(ref, system=None, bins=None):
                        submitted_items.append(ref.obj)
                        return FakeRay.Future(
                            lambda: pdiag.misorientation_index(ref.obj, system, bins))

                class _Dstr:
                    misorientation_index = _Remote

                pdiag.HAS_RAY = True
                pdiag.ray = fake
                pdiag._dstr = _Dstr
                out = pdiag.misorientation_indices(stack, system, bins=bins, pool=object())
        except Exception as e:  # noqa: BLE001
            exc = e
    finally:
        pdiag.Pool, pdiag.HAS_RAY = saved[0], saved[1]
        if saved[2] is None:
            if hasattr(pdiag, "ray"):
                del pdiag.ray
        else:
            pdiag.ray = saved[2]
        if saved[3] is None:
            if hasattr(pdiag, "_dstr"):
                del pdiag._dstr
        else:
            pdiag._dstr = saved[3]
    n = len(stack)
    c[f"path.{scn['path']}"] = c.get(f"path.{scn['path']}", 0) + 1
    c["snapshots"] = c.get("snapshots", 0) + n
    c[f"workers.{min(scn['W'], 16)}"] = c.get(f"workers.{min(scn['W'], 16)}", 0) + 1
    comp = list(log.get("completion_order", []))
    reordered = comp != sorted(comp)
    c["completion_order_differs_from_submission"] = \
        c.get("completion_order_differs_from_submission", 0) + int(reordered)
    if scalar_exc is not None:
        key = f"scalar_raises.{scn['system']}.{scalar_exc}"
        c[key] = c.get(key, 0) + 1
    elif exc is not None:
        v("values", {"what": f"batched variant raised {type(exc).__name__}: {str(exc)[:160]}",
                     "path": scn["path"], "W": scn["W"]})
    else:
        exp = np.array(expected, dtype=float) if n else np.empty(0)
        got = np.asarray(out)
        c["batches_compared"] = c.get("batches_compared", 0) + 1
        if got.shape != (n,) or got.dtype != np.float64:
            v("values", {"what": "wrong shape/dtype", "shape": list(got.shape), "dtype": str(got.dtype),
                         "expected_len": n})
        elif got.tobytes() != exp.tobytes() and not np.array_equal(got, exp, equal_nan=True):
            same_multiset = sorted(np.nan_to_num(got, nan=-1).tolist()) == \
                sorted(np.nan_to_num(exp, nan=-1).tolist())
            v("order" if same_multiset else "values",
              {"got": got.tolist(), "expected": exp.tolist(), "path": scn["path"], "W": scn["W"],
               "system": scn["system"], "call_index": k,
               "completion_order": [int(x) for x in comp]})
        # informational only (how PyDRex feeds the pool is not part of the property: a correct
        # implementation may, e.g., skip repeated snapshots): was every snapshot handed to the
        # pool exactly once, in snapshot order?
        same = len(submitted_items) == n and all(
            np.asarray(it).shape == stack[j].shape and np.array_equal(np.asarray(it), stack[j])
            for j, it in enumerate(submitted_items))
        key = "pool_fed_each_snapshot_once_in_order" if same else "pool_fed_differently"
        c[key] = c.get(key, 0) + 1
        if scn["path"] == "ncpus" and factory_calls != [scn["W"]]:
            # informational only: how many workers PyDRex asks for is not part of the property
            c["pool_factory_called_with_other_worker_count"] = \
                c.get("pool_factory_called_with_other_worker_count", 0) + 1
    hh = hashlib.sha256()
    hh.update(np.asarray(out if out is not None and exc is None else []).tobytes()
              if scalar_exc is None else b"x")
    hh.update(repr((comp, log.get("calls"), scalar_exc, type(exc).__name__)).encode())
    return {"digest": hh.hexdigest(), "reordered": reordered and scalar_exc is None,
            "sig": f"{scn['path']}|W{scn['W']}|n{n}|{scn['system'][:4]}|{','.join(str(x) for x in comp)}",
            "state": f"{scn['path']}|W{scn['W']}|{scn['system']}|re{int(reordered)}"}


def shrink_candidates(scn):
    import copy

    calls = scn["calls"]
    if len(calls) > 1:
        for i in range(len(calls)):
            s = copy.deepcopy(scn)
            del s["calls"][i]
            yield s
    for i, call in enumerate(calls):
        st = call["stack"]
        for n in (1, 2, 3):
            if n < st["n_snap"]:
                s = copy.deepcopy(scn)
                s["calls"][i]["stack"]["n_snap"] = n
                s["calls"][i]["pool"]["durations"] = call["pool"]["durations"][:n] or [1.0]
                yield s
        if st["n_grains"] > 2:
            s = copy.deepcopy(scn)
            s["calls"][i]["stack"]["n_grains"] = 2
            yield s
        if call["W"] > 2:
            s = copy.deepcopy(scn)
            s["calls"][i]["W"] = 2
            yield s
        if call["pool"]["stalls"]:
            s = copy.deepcopy(scn)
            s["calls"][i]["pool"]["stalls"] = {}
            yield s
        if call["bins"] is not None:
            s = copy.deepcopy(scn)
            s["calls"][i]["bins"] = None
            yield s


def uncontrolled_supplement():
    """Real multiprocessing.Pool (runtime observation, NOT part of any digest)."""
    import multiprocessing as mp

    boot()
    import pydrex.diagnostics as pdiag
    from pydrex import geometry as geo

    stack = build_stack({"n_snap": 6, "n_grains": 12, "seed": 5, "kind": "mixed"})
    system = geo.LatticeSystem.orthorhombic
    exp = np.array([pdiag.misorientation_index(s, system) for s in stack])
    res = {}
    for W in (1, 2, 3, 7, 16):
        got = pdiag.misorientation_indices(stack, system, ncpus=W)
        res[f"ncpus={W}"] = bool(got.tobytes() == exp.tobytes())
    with mp.get_context("fork").Pool(3) as pool:
        got = pdiag.misorientation_indices(stack, system, pool=pool)
        res["external_pool(3)"] = bool(got.tobytes() == exp.tobytes())
    return res


RUNS = {"quick": 5000, "thorough": 90000}
RULE = ("one evaluation = a seeded history of 1-4 batched calls (an externally supplied pool may be "
        "reused by later calls with other stacks, lattice systems and bin counts), each call a seeded "
        "stack (0-12 snapshots x 2-40 grains; random, clustered, mixed, with a duplicated snapshot or runs of 1-4 consecutive identical snapshots in "
        "a share) pushed through misorientation_indices via one of three entry paths: pool=SimPool, ncpus=k with pydrex.diagnostics.Pool rebound to a SimPool "
        "factory, or the Ray branch against a stub; SimPool has W in 1..16 simulated workers, "
        "seeded task durations (heavy-tailed / one slow task / decreasing), stalls, lazy feeding and "
        "chunking; the result must equal the scalar function applied snapshot by snapshot, bit for "
        "bit and in order (whether every snapshot is handed to the pool exactly once is recorded, not judged). "
        "distinct = distinct (entry path, W, stack length, simulated completion order); non-trivial "
        "= the simulated completion order differs from the submission order")
COMPONENTS = {
    "real": ["pydrex.diagnostics.misorientation_indices (result assembly)", "pydrex.diagnostics.misorientation_index (executed in-process by the simulated workers)"],
    "simulator_owned": ["worker count, task durations, stalls, feeding depth, chunking, completion order"],
    "stub": ["the process pool (SimPool models the multiprocessing.Pool API: imap / imap_unordered / map / starmap / apply_async / context manager)",
             "Ray (ray.put / ray.get / .remote) in the runs that take the Ray branch"],
    "uncontrolled_supplement": "real multiprocessing.Pool with 1, 2, 3, 7, 16 workers and an external pool, run once per invocation in the parent; runtime observation, excluded from digests",
}
ASSUMPTIONS = ["the per-snapshot values are the scalar function evaluated in a child forked from the state the run started in (no other call, no other lattice system evaluated before)",
               "batched clause only; the scalar clauses of C14 are pure functions and not decided here",
               "SimPool models the documented ordering guarantees of multiprocessing.Pool, it does not execute a real pool",
               "lattice systems on which the scalar function raises on the unchanged tree (rhombohedral: AssertionError) are counted, not compared"]
PROBES = ["external_pool_reused", "history_len.3", "path.pool", "path.ncpus", "path.ray", "completion_order_differs_from_submission",
          "workers.1", "workers.16", "batches_compared"]


def warmup():
    boot()
    import pydrex.diagnostics as pdiag
    from pydrex import geometry as geo

    # one lattice system is enough to compile everything (the compiled code does not depend
    # on the system); evaluating the others here would hand every run a process that has
    # already seen them
    A = Rotation.random(4, random_state=1).as_matrix()
    pdiag.misorientation_index(A, geo.LatticeSystem.orthorhombic)
    pdiag.misorientation_index(A, geo.LatticeSystem.orthorhombic, 10)


def coverage_floor(counters, n_done):
    if n_done == 0 or counters.get("batches_compared", 0) == 0:
        return "nothing compared"
    if counters.get("completion_order_differs_from_submission", 0) == 0:
        return "completion order never differed from submission order"
    return None

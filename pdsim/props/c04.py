"""C04 — frame indifference and crystal-symmetry invariance (integrated-texture clause;
the rate clause is checked on the states the histories reach).

The same seeded op list is executed in a world W and in a twin W' that is either seen
from a rotated reference frame (Q) or has a seeded subset of grains replaced by
lattice-symmetry-equivalent orientations."""

import copy
import hashlib

import numpy as np

from .. import env as E
from .. import gen as G
from .. import scen as S
from ..twin import compare_traces, confirm_chain, run_traced
from .. import world as W

PROPERTY = "C04"
LEVEL = "exploration"


def tol_fn(N, strain):
    return 2.0 * (5e-3 + 1e-3 * (N + 2.0 * strain))


def generate(seed, tier="quick"):
    rng = G.rng_of("C04", seed)
    world = S.gen_world(rng, regimes=[G.R_MDISL] * 4 + [G.R_YIELD], allow_aligned=False,
                        n_choices=[2, 3, 4, 5, 8, 8, 16, 32, 64], tight_share=0.5)
    total = rng.choice([0.3, 0.5, 1.0, 2.0, 4.0, 6.0])
    if world["solver"]["tol"] != "tight":
        total = min(total, 2.0)
    ops = S.gen_history_ops(rng, world, total=total, n_max=rng.choice([2, 4, 8, 16, 40]),
                            restart_share=0.1 if rng.random() < 0.25 else 0.0)
    if rng.random() < 0.25:
        out = []
        for op in ops:
            if rng.random() < 0.25:
                f = dict(op)
                f["fault"] = {"kind": rng.choice(["L_raises", "position_raises", "solver_failed"]),
                              "at_call": rng.randrange(1 << 16)}
                out.append(f)
            out.append(op)
        ops = out
    if len(world["minerals"]) > 1 and rng.random() < 0.2:
        # a bulk update on minerals sharing an environment keeps the twin meaningful
        pass
    for op in ops:
        if op["op"] == "update" and not op.get("fault") and rng.random() < 0.5:
            op["record_derivs"] = rng.choice([7, 13, 29])
            op["deriv_phase"] = rng.randrange(op["record_derivs"])
    kind = rng.choice(["rotate", "rotate", "symmetry"])
    if kind == "rotate":
        c = rng.random()
        if c < 0.7:
            Q = E.rotation_from_spec({"kind": "seed", "seed": rng.randrange(1 << 30)})
        else:
            Q = E.rotation_from_spec({"kind": "axis", "axis": rng.randrange(3),
                                      "deg": rng.choice([90.0, 180.0, 45.0, 120.0, 1e-3])})
        twin = {"kind": "rotate", "Q": Q.tolist()}
    else:
        syms = {}
        for i, m in enumerate(world["minerals"]):
            n = m["n_grains"]
            share = rng.choice([0.2, 0.5, 1.0])
            syms[str(i)] = [rng.randrange(1, 4) if rng.random() < share else 0 for _ in range(n)]
            if not any(syms[str(i)]):
                syms[str(i)][rng.randrange(n)] = rng.randrange(1, 4)
        twin = {"kind": "symmetry", "sym": syms}
    return {"property": PROPERTY, "engine": "world", "seed": seed, "world": world, "ops": ops,
            "twin": twin}


def twin_spec(scn):
    spec = copy.deepcopy(scn["world"])
    t = scn["twin"]
    if t["kind"] == "rotate":
        spec["transform"] = dict(spec.get("transform") or {})
        spec["transform"]["Q"] = t["Q"]
    else:
        for i, m in enumerate(spec["minerals"]):
            if m.get("ctor") == "default":
                continue
            m["texture"] = dict(m["texture"])
            m["texture"]["sym"] = t["sym"].get(str(i), [0] * m["n_grains"])[: m["n_grains"]]
            if len(m["texture"]["sym"]) < m["n_grains"]:
                m["texture"]["sym"] += [0] * (m["n_grains"] - len(m["texture"]["sym"]))
    return spec


NOISE_EPS = 1e-9


def _bad(res):
    return [v for v in res["verdicts"] if v["clause"] != "rate"]


def execute(scn):
    res = _execute(scn)
    if _bad(res) and not confirm_chain(scn, _execute, _bad, tol_fn, PROPERTY,
                                       res["stats"]["counters"], NOISE_EPS, twin_world=twin_spec):
        res["verdicts"] = [v for v in res["verdicts"] if v["clause"] == "rate"]
    return res


def _execute(scn):
    verdicts, counters, maxima = [], {}, {}
    wA, trA, _ = run_traced(scn["world"], scn["ops"])
    specB = twin_spec(scn)
    wB, trB, _ = run_traced(specB, scn["ops"])
    t = scn["twin"]
    if t["kind"] == "rotate":
        Q = np.array(t["Q"], dtype=float)
        map_A = lambda m, A: A @ Q.T  # noqa: E731
        map_F = lambda F: Q @ F @ Q.T  # noqa: E731
        clause = "rotation"
    else:
        ops_per = {int(k): E.SYM_OPS[np.array(v)] for k, v in t["sym"].items()}

        def map_A(m, A):
            Sg = ops_per.get(m)
            if Sg is None or Sg.shape[0] != A.shape[0]:
                return A
            return np.einsum("gij,gjk->gik", Sg, A)

        map_F = lambda F: F  # noqa: E731
        clause = "symmetry"
    compare_traces(trA, trB, map_A, map_F, tol_fn, PROPERTY, clause, verdicts, counters, maxima)
    # ---- rate clause on the states reached by world A
    real = W._real["deriv"]
    n_rate = 0
    for r in wA.log:
        d = r.get("derivs")
        if not d or not d.get("calls"):
            continue
        for kw, out in d["calls"]:
            kw2 = dict(kw)
            if t["kind"] == "rotate":
                kw2["orientations"] = np.ascontiguousarray(kw["orientations"] @ Q.T)
                kw2["strain_rate"] = Q @ kw["strain_rate"] @ Q.T
                kw2["velocity_gradient"] = Q @ kw["velocity_gradient"] @ Q.T
                kw2["deformation_gradient_spin"] = Q @ kw["deformation_gradient_spin"] @ Q.T
                exp_dA = out[0] @ Q.T
            else:
                Sg = ops_per.get(r["m"])
                if Sg is None or Sg.shape[0] != kw["orientations"].shape[0]:
                    continue
                kw2["orientations"] = np.ascontiguousarray(
                    np.einsum("gij,gjk->gik", Sg, kw["orientations"]))
                exp_dA = np.einsum("gij,gjk->gik", Sg, out[0])
            try:
                got = real(**kw2)
            except Exception as e:  # noqa: BLE001
                verdicts.append({"property": PROPERTY, "clause": "rate", "op": r["i"], "m": r["m"],
                                 "detail": {"what": "derivatives raised on the transformed state",
                                            "exc": type(e).__name__}})
                continue
            n_rate += 1
            # natural scales: rates are O(|L|) for orientations and O(phi * M* * f * E) with
            # strain energies E = O(1) for volumes (when all grains have the same energy the
            # volume rates cancel to rounding noise, which must not be used as the scale)
            sA = max(float(np.abs(out[0]).max()), float(np.abs(kw["velocity_gradient"]).max()), 1e-12)
            sf = max(float(np.abs(out[1]).max()),
                     float(kw["gbm_mobility"] * kw["volume_fraction"] * np.abs(kw["fractions"]).max()),
                     1e-12)
            eA = float(np.abs(got[0] - exp_dA).max()) / sA
            ef = float(np.abs(got[1] - out[1]).max()) / sf
            maxima["rate_rel_err_over_1e-9"] = max(maxima.get("rate_rel_err_over_1e-9", 0.0),
                                                   max(eA, ef) / 1e-9)
            if max(eA, ef) > 1e-9:
                verdicts.append({"property": PROPERTY, "clause": "rate", "op": r["i"], "m": r["m"],
                                 "detail": {"rel_err_orientation_rate": eA, "rel_err_volume_rate": ef,
                                            "twin": t["kind"]}})
                break
    counters["rate_states_checked"] = n_rate
    tag = wA.solver.get("tol", "default")
    for k in [k for k in maxima if k.endswith("_diff_over_tol")]:
        maxima[f"{k}.{tag}_solver"] = maxima.pop(k)
    counters["update_calls"] = len(wA.log) + len(wB.log)
    counters[f"twin.{t['kind']}"] = 1
    counters["faulted_updates"] = sum(1 for r in wA.log if r.get("fault"))
    counters["restarts_through_store"] = sum(1 for r in wA.log if r["op"] == "restart")
    stats = {
        "counters": counters, "maxima": maxima,
        "sim_strain": float(sum(m.strain for m in wA.minerals)),
        "sig": t["kind"] + "|" + S.schedule_signature(scn["ops"]),
        "nontrivial": counters.get("snapshots_compared", 0) >= 2,
        "states": sorted({f"{t['kind']}|{wA.solver.get('tol')}|p{int(m.spec['phase'])}f{int(m.spec['fabric'])}"
                          f"r{int(m.spec['regime'])}" for m in wA.minerals}),
    }
    dig = hashlib.sha256((wA.digest() + wB.digest()).encode()).hexdigest()
    return {"verdicts": verdicts, "digest": dig, "stats": stats}


def shrink_candidates(scn):
    from ..shrink import generic_world_candidates

    for c in generic_world_candidates(scn):
        if c["twin"]["kind"] == "symmetry":
            # keep the per-grain relabelling consistent with shrunken grain counts / minerals
            nm = len(c["world"]["minerals"])
            c["twin"]["sym"] = {str(i): (c["twin"]["sym"].get(str(i)) or [1])[: c["world"]["minerals"][i]["n_grains"]]
                                for i in range(nm)}
            for i in range(nm):
                n = c["world"]["minerals"][i]["n_grains"]
                v = c["twin"]["sym"][str(i)]
                v += [1] * (n - len(v))
        yield c
    if scn["twin"]["kind"] == "rotate":
        for axis in range(3):
            s = copy.deepcopy(scn)
            s["twin"]["Q"] = E.rotation_from_spec({"kind": "axis", "axis": axis, "deg": 90.0}).tolist()
            if s["twin"]["Q"] != scn["twin"]["Q"]:
                yield s


RUNS = {"quick": 1200, "thorough": 15000}
RULE = ("one evaluation = one seeded world executed twice with the same seeded op list (partition, "
        "interleaving, faulted updates and retries): once as is, once either seen from a frame "
        "rotated by a seeded proper rotation Q (L' = Q L(Q^T x') Q^T, x' = Q x, A' = A Q^T, "
        "F0' = Q F0 Q^T) or with a seeded subset of grains replaced by two-fold symmetry "
        "equivalents; every stored snapshot and returned F compared under the mapping within twice "
        "the accumulated solver tolerance (a default-solver discrepancy must persist with the tight "
        "solver to be reported). A seeded sample of core.derivatives calls reached by the histories "
        "is re-evaluated on the transformed state and compared at 1e-9 relative. distinct = distinct "
        "(twin kind, schedule signature); non-trivial = at least two snapshots compared")
COMPONENTS = {
    "real": ["pydrex.Mineral.update_orientations", "pydrex.core.derivatives (also re-evaluated directly "
             "on transformed reached states)", "scipy LSODA"],
    "simulator_owned": ["reference frame (Q) of flows, pathlines, initial textures and F0", "per-grain "
                        "symmetry relabelling", "partition, interleaving, faults", "derivatives seam "
                        "(recording pass-through)"],
    "stub": [],
}
ASSUMPTIONS = [
    "integrated-texture clause claimed; the instantaneous-rate clause is checked only on states reached by the simulated histories",
    "default-solver twins limited to accumulated strain <= 2; tight-solver twins up to 6",
    "a discrepancy must also persist when the initial textures of both worlds receive the same deterministic 1e-9 perturbation (two variants); counted as knife_edge_not_reproduced_under_perturbation otherwise",
    "a discrepancy is not judged when the history amplifies a deterministic 1e-9 perturbation of the initial texture beyond a tenth of the tolerance; counted as ill_conditioned_history_not_judged",
    "comparison stops at an exact tie at the sliding threshold (counted as inconclusive_tie)",
    "axis-aligned initial textures (exactly vanishing slip invariants, the measure-zero set of C03) are not generated",
]
PROBES = ["restarts_through_store", "twin.rotate", "twin.symmetry", "rate_states_checked", "faulted_updates"]


def warmup():
    from ..warm import warm_world

    warm_world(restart=True, ints=False, regimes=(4, 6))


def coverage_floor(counters, n_done):
    if n_done == 0 or counters.get("snapshots_compared", 0) == 0:
        return "nothing compared"
    if counters.get("inconclusive_tie", 0) > 0.2 * counters.get("snapshots_compared", 1):
        return "too many inconclusive ties"
    return None

"""C08 — multiphase: each phase evolves independently with its own volume factor;
no hidden state shared between minerals.

The same seeded world is executed several ways and every mineral's history compared
BIT FOR BIT:  interleaved (other minerals' updates — other flows, params, faults —
between and, under the baton, DURING its updates)  vs  solo (only its own ops)  vs
permuted (phase list and fraction list permuted together)."""

import copy
import hashlib

import numpy as np

from .. import gen as G
from .. import scen as S
from ..twin import compare_traces, run_traced

PROPERTY = "C08"
LEVEL = "exploration"

NEIGHBOUR_FAULTS = ["L_raises", "position_raises", "solver_failed", "L_nonfinite", "L_malformed"]


def generate(seed, tier="quick"):
    rng = G.rng_of("C08", seed)
    nm = rng.choice([2, 2, 3, 3, 4])
    world = S.gen_world(rng, n_minerals=nm, phases_mode=rng.choice(["both", "both", "both", "ol", "en"]),
                        regimes=[G.R_MDISL] * 5 + [G.R_YIELD] * 2 + [G.R_MINV],
                        n_choices=[2, 3, 4, 5, 8, 8, 16, 32], tight_share=0.3)
    # C08.twin: an identically built and driven copy of mineral 0
    with_dup = rng.random() < 0.5
    if with_dup:
        world["minerals"].append(copy.deepcopy(world["minerals"][0]))
        if rng.random() < 0.5 and world["minerals"][0].get("ctor") != "default":
            world["minerals"][-1]["share_init_with"] = 0  # same initial array objects
    n_all = len(world["minerals"])
    per = []
    for m in range(n_all):
        if with_dup and m == n_all - 1:
            per.append([dict(o, m=m) for o in per[0]])
            continue
        T = rng.choice([0.2, 0.5, 1.0, 2.0])
        parts = G.partition(rng, 0.0, T, n_max=rng.choice([2, 4, 8, 12]))
        lst = []
        for a, b in parts:
            o = {"op": "update", "m": m, "t0": a, "t1": b}
            if rng.random() < 0.12:
                o["fault"] = {"kind": rng.choice(NEIGHBOUR_FAULTS), "at_call": rng.randrange(1 << 16)}
                lst.append(o)
                lst.append({"op": "update", "m": m, "t0": a, "t1": b})
            else:
                lst.append(o)
        per.append(lst)
    # seeded scheduler: interleave, sometimes overlapping 2-3 minerals under a baton
    p_overlap = rng.choice([0.0, 0.3, 0.6])
    ops = []
    cur = [0] * n_all
    while any(cur[m] < len(per[m]) for m in range(n_all)):
        live = [m for m in range(n_all) if cur[m] < len(per[m])]
        if len(live) >= 2 and rng.random() < p_overlap:
            k = rng.choice([2, 2, 3]) if len(live) >= 3 else 2
            ms = rng.sample(live, k)
            intervals, faults = [], {}
            for m in ms:
                o = per[m][cur[m]]
                cur[m] += 1
                intervals.append([o["t0"], o["t1"]])
                if o.get("fault"):
                    faults[str(m)] = o["fault"]
            style = rng.choice(["random", "random", "alternate", "bursty"])
            L = rng.randint(8, 200)
            if style == "random":
                baton = [rng.randrange(6) for _ in range(L)]
            elif style == "alternate":
                baton = [j % 6 for j in range(L)]
            else:
                baton = []
                while len(baton) < L:
                    baton += [rng.randrange(6)] * rng.randint(1, 30)
            ops.append({"op": "overlap", "ms": ms, "intervals": intervals, "faults": faults,
                        "baton": baton})
        else:
            m = rng.choice(live)
            ops.append(per[m][cur[m]])
            cur[m] += 1
    # the driver rewrites the phase fractions of a params dict in place between calls
    two = [j for j, p in enumerate(world["paramsets"]) if len(p["phase_assemblage"]) > 1]
    if two and not with_dup and rng.random() < 0.45:
        # (not together with the identically-driven duplicate: a rewrite landing between the
        # two copies' updates would legitimately make them differ)
        for _ in range(rng.randint(1, 3)):
            a = rng.choice([0.2, 0.4, 0.6, 0.8, rng.uniform(0.05, 0.95)])
            ops.insert(rng.randrange(len(ops) + 1),
                       {"op": "set_fractions", "params": rng.choice(two), "fractions": [a, 1.0 - a]})
    scn = {"property": PROPERTY, "engine": "world", "seed": seed, "world": world, "ops": ops,
           "dup": n_all - 1 if with_dup else None}
    # C08.reorder tail: one bulk update from the reached state, in two orders
    if rng.random() < 0.6:
        group = list(range(n_all))
        rng.shuffle(group)
        group = group[: rng.randint(2, n_all)]
        alt = group[:]
        while alt == group:
            rng.shuffle(alt)
        T0 = 2.5
        scn["bulk_tail"] = {"orderA": group, "orderB": alt, "t0": T0, "t1": T0 + rng.choice([0.05, 0.2, 0.5]),
                            "flow": 0, "path": 0, "params": 0, "F_from": group[0]}
    return scn


def flatten(ops):
    out = []
    for op in ops:
        if op["op"] == "overlap":
            for m, (t0, t1) in zip(op["ms"], op["intervals"]):
                o = {"op": "update", "m": m, "t0": t0, "t1": t1}
                f = (op.get("faults") or {}).get(str(m))
                if f:
                    o["fault"] = f
                out.append(o)
        else:
            out.append(op)
    return out


def history_of(world, m):
    """(snapshots, returned Fs, statuses) of mineral m in an executed world."""
    o = world.minerals[m].obj
    Fs = []
    st = []
    for rec in world.log:
        for r in (rec.get("sub") or [rec]):
            if r.get("m") == m and r["op"] == "update":
                Fs.append(r["F_out"])
                st.append((r["status"], r["exc"], r["nL"], r["nP"], r["steps"]))
    return list(zip(o.orientations, o.fractions)), Fs, st


def bit_compare(hA, hB):
    sA, FA, stA = hA
    sB, FB, stB = hB
    if len(sA) != len(sB):
        return {"what": "different number of snapshots", "A": len(sA), "B": len(sB)}
    for k, ((A1, f1), (A2, f2)) in enumerate(zip(sA, sB)):
        if not (np.array_equal(A1, A2) and np.array_equal(f1, f2)):
            return {"what": "snapshot differs", "snapshot": k,
                    "dA": float(np.abs(A1 - A2).max()), "df": float(np.abs(f1 - f2).max())}
    if len(FA) != len(FB):
        return {"what": "different number of update calls", "A": len(FA), "B": len(FB)}
    for k, (a, b) in enumerate(zip(FA, FB)):
        if (a is None) != (b is None):
            return {"what": "update completed in one execution and raised in the other", "call": k}
        if a is not None and not np.array_equal(a, b):
            return {"what": "returned F differs", "call": k, "dF": float(np.abs(a - b).max())}
    for k, (a, b) in enumerate(zip(stA, stB)):
        if a[:2] != b[:2]:
            return {"what": "status differs", "call": k, "A": list(a[:2]), "B": list(b[:2])}
    return None


def _single_phase(spec, ops_same, same, p0, c, maxima):
    """Mineral in a multiphase aggregate with fraction phi  vs  single-phase mineral with
    mobility M* x phi (1e-6, tight solver)."""
    specS = copy.deepcopy(spec)
    for p in specS["paramsets"]:
        if p0 in [int(x) for x in p["phase_assemblage"]]:
            phi = p["phase_fractions"][[int(x) for x in p["phase_assemblage"]].index(p0)]
            p["gbm_mobility"] = p["gbm_mobility"] * phi
            p["phase_assemblage"] = [p0]
            p["phase_fractions"] = [1.0]
    vs = []
    wS1, trS, _ = run_traced(specS, ops_same)
    wI1, trI, _ = run_traced(spec, ops_same)
    compare_traces(trI, trS, lambda m, A: A, lambda F: F, lambda N, s: 1e-6, PROPERTY,
                   "single_phase_equivalent", vs, c, maxima, minerals=set(same))
    return vs


def execute(scn):
    from ..world import World

    verdicts, c, maxima = [], {}, {}

    def v(clause, m, detail):
        verdicts.append({"property": PROPERTY, "clause": clause, "op": -1, "m": m, "detail": detail})

    spec = scn["world"]
    n_all = len(spec["minerals"])
    # ---- interleaved / overlapped execution
    wI = World(spec)
    wI.run(scn["ops"])
    flat = flatten(scn["ops"])
    digests = [wI.digest()]
    c["update_calls"] = sum(len(r.get("sub") or [r]) for r in wI.log)
    c["overlap_ops"] = sum(1 for r in wI.log if r["op"] == "overlap")
    c["baton_switches"] = sum(r.get("switches", 0) for r in wI.log if r["op"] == "overlap")
    c["baton_handover_points"] = sum(r.get("points", 0) for r in wI.log if r["op"] == "overlap")
    c["neighbour_faults_fired"] = sum(1 for rec in wI.log for r in (rec.get("sub") or [rec])
                                      if r.get("fault") and r.get("fired"))
    c["faults_fired_while_others_in_flight"] = sum(
        1 for rec in wI.log if rec["op"] == "overlap" for r in rec["sub"]
        if r.get("fault") and r.get("fired"))
    alternations = 0
    last = None
    for op in flat:
        if op["op"] == "set_fractions":
            continue
        if last is not None and op["m"] != last:
            alternations += 1
        last = op["m"]
    c["call_level_alternations"] = alternations
    # ---- solo executions
    for m in range(n_all):
        wS = World(spec)
        wS.run([o for o in flat if o["op"] == "set_fractions" or o["m"] == m])
        d = bit_compare(history_of(wS, m), history_of(wI, m))
        c["solo_vs_interleaved_compared"] = c.get("solo_vs_interleaved_compared", 0) + 1
        if d:
            v("interleave", m, d)
        if m == 0:
            digests.append(wS.digest())
    # ---- permuted phase / fraction lists
    specP = copy.deepcopy(spec)
    two_phase = False
    for p in specP["paramsets"]:
        if len(p["phase_assemblage"]) > 1:
            two_phase = True
        p["phase_assemblage"] = p["phase_assemblage"][::-1]
        p["phase_fractions"] = p["phase_fractions"][::-1]
        p["assemblage_as"] = "tuple" if p.get("assemblage_as") == "list" else "list"
    wP = World(specP)
    wP.run([dict(o, fractions=o["fractions"][::-1]) if o["op"] == "set_fractions" else o for o in flat])
    for m in range(n_all):
        d = bit_compare(history_of(wP, m), history_of(wI, m))
        if two_phase:
            c["permuted_compared"] = c.get("permuted_compared", 0) + 1
        if d:
            v("permute", m, d)
    # ---- phase / fraction lists reversed together in place before a seeded subset of the calls
    if two_phase:
        specM = copy.deepcopy(spec)
        specM["permute_calls_seed"] = int(scn.get("seed", 0)) & 0x7FFFFFFF
        wM = World(specM)
        wM.run(flat)
        c["permuted_mid_history_flips"] = getattr(wM, "perm_flips", 0)
        for m in range(n_all):
            d = bit_compare(history_of(wM, m), history_of(wI, m))
            if d:
                v("permute", m, dict(d, what2="phase and fraction lists reversed together in place "
                                              "between calls of one history"))
    # ---- dict identity: an equal, newly built params dict for every call
    specF = copy.deepcopy(spec)
    specF["fresh_params_per_call"] = True
    wF = World(specF)
    wF.run(flat)
    c["params_rewritten_in_place"] = sum(1 for o in flat if o["op"] == "set_fractions")
    for m in range(n_all):
        d = bit_compare(history_of(wF, m), history_of(wI, m))
        c["fresh_params_dict_compared"] = c.get("fresh_params_dict_compared", 0) + 1
        if d:
            v("params_identity", m, dict(d, what2="results depend on the identity / earlier contents "
                                                  "of the params dict, not on its values"))
    # ---- identically built and driven twin
    if scn.get("dup") is not None:
        d = bit_compare(history_of(wI, 0)[:2] + ([],), history_of(wI, scn["dup"])[:2] + ([],))
        c["identical_twin_compared"] = 1
        if d:
            v("twin", scn["dup"], d)
    # ---- own fraction only (histories without in-place rewrites of the fractions)
    if two_phase and not any(o["op"] == "set_fractions" for o in flat):
        p0 = int(spec["minerals"][0]["phase"])
        specO = copy.deepcopy(spec)
        for p in specO["paramsets"]:
            p["phase_fractions"] = [f if int(ph) == p0 else f * 0.37 + 0.01
                                    for ph, f in zip(p["phase_assemblage"], p["phase_fractions"])]
        wO = World(specO)
        same = [m for m in range(n_all) if int(spec["minerals"][m]["phase"]) == p0]
        wO.run([o for o in flat if o["op"] != "set_fractions" and o["m"] in same])
        for m in same:
            d = bit_compare(history_of(wO, m)[:2] + ([],), history_of(wI, m)[:2] + ([],))
            c["other_phase_fraction_changed_compared"] = c.get("other_phase_fraction_changed_compared", 0) + 1
            if d:
                v("own_fraction", m, dict(d, what2="changing only the OTHER phase's fraction changed this mineral"))
        # single-phase mineral with mobility M* x phi
        if spec.get("solver", {}).get("tol") == "tight":
            ops_same = [o for o in flat if o["op"] != "set_fractions" and o["m"] in same]
            vs = _single_phase(spec, ops_same, same, p0, c, maxima)
            if vs:
                # not bit-identical arithmetic by contract (phi*M* is formed at another place):
                # a discrepancy must be generic to count (see twin.confirm_chain)
                from ..twin import conditioning

                generic = True
                for pseed in (101, 202):
                    sp = copy.deepcopy(spec)
                    sp["perturb"] = {"eps": 1e-9, "seed": pseed}
                    if not _single_phase(sp, ops_same, same, p0, {}, {}):
                        generic = False
                        c["knife_edge_not_reproduced_under_perturbation"] = 1
                        break
                if generic and conditioning(spec, ops_same, lambda N, s_: 1e-6, 1e-9, PROPERTY) > 0.1:
                    generic = False
                    c["ill_conditioned_history_not_judged"] = 1
                if generic:
                    verdicts.extend(vs)
    # ---- one bulk update from the reached state, in two orders
    bt = scn.get("bulk_tail")
    if bt:
        base = {k: bt[k] for k in ("t0", "t1", "flow", "path", "params", "F_from")}
        wA = World(spec)
        wA.run(flat + [dict(base, op="update_all", ms=bt["orderA"])])
        wB = World(spec)
        wB.run(flat + [dict(base, op="update_all", ms=bt["orderB"])])
        rA, rB = wA.log[-1], wB.log[-1]
        if rA["status"] == "ok" and rB["status"] == "ok":
            c["bulk_reorder_compared"] = 1
            solo_F = {}
            for m in bt["orderA"]:
                wS = World(spec)
                wS.run(flat + [dict(base, op="update", m=m)])
                rS = wS.log[-1]
                if rS["status"] != "ok":
                    continue
                solo_F[m] = rS["F_out"]
                for wX, name in ((wA, "orderA"), (wB, "orderB")):
                    oX, oS = wX.minerals[m].obj, wS.minerals[m].obj
                    if len(oX.orientations) != len(oS.orientations) or \
                            not np.array_equal(oX.orientations[-1], oS.orientations[-1]) or \
                            not np.array_equal(oX.fractions[-1], oS.fractions[-1]):
                        v("reorder", m, {"what": f"snapshot after bulk update ({name}) differs from "
                                                 "the mineral's own single update from the same state",
                                         "order": bt[name]})
            for r, name in ((rA, "orderA"), (rB, "orderB")):
                lastm = bt[name][-1]
                if lastm in solo_F and not np.array_equal(r["F_out"], solo_F[lastm]):
                    v("reorder", lastm, {"what": "F returned by the bulk update is not the last "
                                                 "mineral's F", "order": bt[name],
                                         "dF": float(np.abs(r["F_out"] - solo_F[lastm]).max())})
        else:
            c["bulk_reorder_rejected"] = 1
        digests += [wA.digest(), wB.digest()]
    digests.append(wP.digest())
    patterns = {tuple(r.get("baton_trace", [])[:32]) for r in wI.log if r["op"] == "overlap"}
    stats = {
        "counters": c, "maxima": maxima,
        "sim_strain": float(sum(m.strain for m in wI.minerals)),
        "sig": S.schedule_signature(scn["ops"]) + "|" + hashlib.sha256(
            repr(sorted(patterns)).encode()).hexdigest()[:8],
        "nontrivial": alternations + c["baton_switches"] > 0,
        "states": sorted({f"ov{min(c['overlap_ops'], 3)}|sw{min(c['baton_switches'] // 10, 5)}|"
                          f"nf{min(c['neighbour_faults_fired'], 2)}|2p{int(two_phase)}"}),
    }
    dig = hashlib.sha256("".join(digests).encode()).hexdigest()
    return {"verdicts": verdicts, "digest": dig, "stats": stats}


def shrink_candidates(scn):
    from ..shrink import _drop_chunks

    ops = scn["ops"]
    for cand in _drop_chunks(ops):
        s = copy.deepcopy(scn)
        s["ops"] = copy.deepcopy(cand)
        yield s
    if scn.get("bulk_tail"):
        s = copy.deepcopy(scn)
        del s["bulk_tail"]
        yield s
    # overlap -> sequential
    for i, op in enumerate(ops):
        if op["op"] == "overlap":
            s = copy.deepcopy(scn)
            s["ops"] = ops[:i] + flatten([op]) + ops[i + 1:]
            yield s
            if len(op["baton"]) > 4:
                s = copy.deepcopy(scn)
                s["ops"][i]["baton"] = op["baton"][: len(op["baton"]) // 2]
                yield s
    for i, op in enumerate(ops):
        if op.get("fault"):
            s = copy.deepcopy(scn)
            del s["ops"][i]["fault"]
            yield s
    w = scn["world"]
    if w.get("solver", {}).get("tol") != "default":
        s = copy.deepcopy(scn)
        s["world"]["solver"] = {"tol": "default"}
        yield s
    for i, f in enumerate(w["flows"]):
        if f["family"] != "const":
            s = copy.deepcopy(scn)
            s["world"]["flows"][i] = {"family": "const", "L0": [[0, 0, 2.0], [0, 0, 0], [0, 0, 0]]}
            yield s
    for i, m in enumerate(w["minerals"]):
        if m["n_grains"] > 2 and scn.get("dup") is None:
            s = copy.deepcopy(scn)
            s["world"]["minerals"][i]["n_grains"] = 2
            yield s


RUNS = {"quick": 350, "thorough": 4000}
RULE = ("one evaluation = one seeded world of 2-4 minerals (both phases, own flows / params / "
        "pathlines) whose op list is produced by a seeded scheduler: call-level interleaving, and "
        "overlap ops in which 2-3 minerals are advanced concurrently by real caller threads parked "
        "at every callback and released one at a time following the baton sequence in the scenario; "
        "neighbours' updates carry injected faults. The world is executed interleaved, solo per "
        "mineral, with permuted phase/fraction lists (for the whole history, and reversed in place before a seeded subset of the calls), with only the other phase's fraction changed, "
        "as a single-phase equivalent (tight solver), with an identically driven duplicate, and "
        "with one bulk update in two orders; histories compared bit for bit. distinct = distinct "
        "(schedule signature, baton patterns); non-trivial = at least one real alternation between "
        "minerals (call level or baton switch)")
COMPONENTS = {
    "real": ["pydrex.Mineral.update_orientations", "pydrex.update_all", "pydrex.core.derivatives",
             "scipy LSODA (one integrator per update, real caller threads in overlap ops)"],
    "simulator_owned": ["which mineral advances next and by how much", "which caller thread runs "
                        "between two callbacks (baton)", "neighbour faults", "flows, pathlines, params"],
    "stub": [],
}
ASSUMPTIONS = [
    "each mineral keeps its own F chain so that all executions perform the same arithmetic",
    "nested same-thread re-entry (an update started from inside a callback of another) is excluded: scipy's LSODA forbids it",
    "over histories that feed the bulk F forward, reordering is only compared for one bulk call from a given state (bit-identical); F equality across minerals is C06's solver-tolerance statement",
]
PROBES = ["permuted_mid_history_flips", "params_rewritten_in_place", "fresh_params_dict_compared", "overlap_ops", "baton_switches", "faults_fired_while_others_in_flight", "permuted_compared",
          "identical_twin_compared", "other_phase_fraction_changed_compared", "bulk_reorder_compared",
          "snapshots_compared"]
RUN_TIMEOUT_S = 420


def warmup():
    from ..warm import warm_world

    warm_world(restart=False, ints=False, regimes=(4, 6, 0))


def coverage_floor(counters, n_done):
    if n_done == 0:
        return "no run completed"
    if counters.get("solo_vs_interleaved_compared", 0) == 0:
        return "nothing compared"
    return None

"""Known-findings file handling.  The file is committed and never written at run time."""

import json
import os

PATH = os.path.join(os.path.dirname(os.path.dirname(os.path.abspath(__file__))),
                    "known_findings.json")


def load():
    if not os.path.exists(PATH):
        return []
    with open(PATH) as f:
        data = json.load(f)
    return [e for e in data.get("findings", []) if e.get("status") == "known"]


def _rule_matrix_diffusion(verdict, scn):
    """orthonormality loss of a mineral that accumulated strain in matrix_diffusion."""
    d = verdict.get("detail") or {}
    return float(d.get("diffusion_strain") or 0.0) > 0.0


RULES = {
    "matrix_diffusion_strain": _rule_matrix_diffusion,
}


def match(verdict, scn, known):
    for e in known:
        if e["property"] != verdict["property"]:
            continue
        if verdict["clause"] not in e.get("clauses", []):
            continue
        rule = RULES.get(e.get("rule"))
        if rule is not None and rule(verdict, scn):
            return e
    return None

"""Known-findings file handling.  The file is committed and never written at run time."""

import json
import os

PATH = os.path.join(os.path.dirname(os.path.dirname(os.path.abspath(__file__))),
                    "known_findings.json")


def load():
    if not os.path.exists(PATH):
        return []
    with open(PATH) as f:
        data = json.load(f)
    return [e for e in data.get("findings", []) if e.get("status") == "known"]


def _rule_matrix_diffusion(verdict, scn):
    """orthonormality loss of a mineral that accumulated strain in matrix_diffusion."""
    d = verdict.get("detail") or {}
    return float(d.get("diffusion_strain") or 0.0) > 0.0


def _rule_compact_support(verdict, scn):
    """F error on a velocity-gradient field with compact support (pulse in time / shear band
    in space) in an update in which the adaptive solver actually ran (>= 1 step): LSODA's
    step-size control stepped over (part of) the support.  A change that skips the solver
    (0 steps) is NOT matched."""
    d = verdict.get("detail") or {}
    if verdict["clause"] == "cumulative":
        return bool(d.get("compact_support_in_history")) and int(d.get("solver_steps") or 0) >= 1
    return d.get("family") in ("pulse", "band") and int(d.get("solver_steps") or 0) >= 1


def _rule_contracting_map(verdict, scn):
    """F error over the RELATIVE bound where PyDRex's absolute solver tolerance alone explains
    it: the flow map of the interval amplifies an absolute error of 1e-4 (the atol PyDRex hands
    LSODA) to at least a tenth of the bound relative to max|F_exact| -- un-straining on
    intervals running backwards in time, round trips, strongly compressing flows.  Only when
    the solver ran."""
    d = verdict.get("detail") or {}
    if int(d.get("solver_steps") or 0) < 1:
        return False
    if verdict["property"] == "C07" and "F does not follow" not in str(d.get("what")):
        return False
    e = d.get("atol_estimate_over_bound")
    return e is not None and float(e) >= 0.03


def _rule_large_rotation(verdict, scn):
    """orthonormality marginally over the bound for a mineral that has been turned through
    more than 6 rad of rigid rotation (the bound of the statement grows with the number of
    updates and the strain, not with the rotation angle; LSODA's drift does).  Gross errors
    (> 5x the bound) and negative determinants are NOT matched."""
    d = verdict.get("detail") or {}
    return (float(d.get("rigid_rotation_total_rad") or 0.0) > 6.0
            and float(d.get("err") or 1e9) <= 5.0 * float(d.get("bound") or 0.0)
            and float(d.get("min_det") or 0.0) > 0.0)


def _rule_large_rotation_F(verdict, scn):
    """F error marginally over the bound for an update (or history) that turns through more
    than 6 rad of rigid rotation: the statement's bound grows with the number of updates and
    the strain, LSODA's error in F (rtol 1e-6) grows with the rotation angle.  Gross errors
    (> 5x the bound) are NOT matched; only when the solver ran."""
    d = verdict.get("detail") or {}
    if int(d.get("solver_steps") or 0) < 1:
        return False
    if verdict["property"] == "C07" and "F does not follow" not in str(d.get("what")):
        return False
    rot = d.get("rigid_rotation_call_rad", d.get("rigid_rotation_total_rad"))
    return (rot is not None and float(rot) > 6.0
            and float(d.get("rel") or 1e9) <= 5.0 * float(d.get("bound") or 0.0))


RULES = {
    "large_rigid_rotation_F": _rule_large_rotation_F,
    "large_rigid_rotation": _rule_large_rotation,
    "contracting_map": _rule_contracting_map,
    "compact_support_stepped_over": _rule_compact_support,
    "matrix_diffusion_strain": _rule_matrix_diffusion,
}


def match(verdict, scn, known):
    for e in known:
        if e["property"] != verdict["property"]:
            continue
        if verdict["clause"] not in e.get("clauses", []):
            continue
        rule = RULES.get(e.get("rule"))
        if rule is not None and rule(verdict, scn):
            return e
    return None

"""Known-findings file handling.  The file is committed and never written at run time."""

import json
import os

PATH = os.path.join(os.path.dirname(os.path.dirname(os.path.abspath(__file__))),
                    "known_findings.json")


def load():
    if not os.path.exists(PATH):
        return []
    with open(PATH) as f:
        data = json.load(f)
    return [e for e in data.get("findings", []) if e.get("status") == "known"]


def _rule_matrix_diffusion(verdict, scn):
    """orthonormality loss of a mineral that accumulated strain in matrix_diffusion."""
    d = verdict.get("detail") or {}
    return float(d.get("diffusion_strain") or 0.0) > 0.0


def _rule_compact_support(verdict, scn):
    """F error on a velocity-gradient field with compact support (pulse in time / shear band
    in space) in an update in which the adaptive solver actually ran (>= 1 step): LSODA's
    step-size control stepped over (part of) the support.  A change that skips the solver
    (0 steps) is NOT matched."""
    d = verdict.get("detail") or {}
    if verdict["clause"] == "cumulative":
        return bool(d.get("compact_support_in_history")) and int(d.get("solver_steps") or 0) >= 1
    return d.get("family") in ("pulse", "band") and int(d.get("solver_steps") or 0) >= 1


def _rule_backward_conditioning(verdict, scn):
    """F error over the bound on intervals that run BACKWARDS in time over a large strain:
    un-straining is a strongly contracting map, the solver's absolute tolerance is set from
    the (large) starting F, and the error relative to the (small) result exceeds the bound.
    Matched only for a reversed call of strain > 3 (per_call / bulk / det) or a history
    containing reversed calls with accumulated strain > 6 (cumulative / split_vs_whole), and
    only when the solver ran; reversed calls of small strain are judged in full."""
    d = verdict.get("detail") or {}
    if int(d.get("solver_steps") or 0) < 1:
        return False
    if verdict["clause"] in ("per_call", "bulk", "det"):
        return bool(d.get("reversed_interval")) and float(d.get("strain") or 0.0) > 3.0
    return bool(d.get("reversed_interval_in_history")) and float(d.get("strain") or 0.0) > 6.0


def _rule_large_rotation(verdict, scn):
    """orthonormality marginally over the bound for a mineral that has been turned through
    more than 6 rad of rigid rotation (the bound of the statement grows with the number of
    updates and the strain, not with the rotation angle; LSODA's drift does).  Gross errors
    (> 5x the bound) and negative determinants are NOT matched."""
    d = verdict.get("detail") or {}
    return (float(d.get("rigid_rotation_total_rad") or 0.0) > 6.0
            and float(d.get("err") or 1e9) <= 5.0 * float(d.get("bound") or 0.0)
            and float(d.get("min_det") or 0.0) > 0.0)


RULES = {
    "large_rigid_rotation": _rule_large_rotation,
    "backward_conditioning": _rule_backward_conditioning,
    "compact_support_stepped_over": _rule_compact_support,
    "matrix_diffusion_strain": _rule_matrix_diffusion,
}


def match(verdict, scn, known):
    for e in known:
        if e["property"] != verdict["property"]:
            continue
        if verdict["clause"] not in e.get("clauses", []):
            continue
        rule = RULES.get(e.get("rule"))
        if rule is not None and rule(verdict, scn):
            return e
    return None

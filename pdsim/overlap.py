"""Overlapped caller threads under a baton.

Each mineral of an `overlap` op is advanced by its own real caller thread.  Every
collaborator callback is a pre-emption point: the thread parks there and the scheduler
(the main thread) releases exactly one thread at a time, following the baton sequence
written in the scenario.  Which thread runs is therefore the simulator's decision; the
threads are real, the choice of who runs is not."""

import threading

from .world import HarnessError

WATCHDOG_S = 30.0


class Baton:
    def __init__(self, ids, seq):
        self.ids = list(ids)
        self.seq = list(seq) or [0]
        self.go = {i: threading.Event() for i in self.ids}
        self.parked = threading.Event()
        self.state = {i: "new" for i in self.ids}
        self.pos = 0
        self.points = 0
        self.switches = 0
        self.last = None
        self.trace = []
        self.error = None

    # ---- called from worker threads
    def wait_turn(self, who):
        if not self.go[who].wait(WATCHDOG_S):
            self.error = f"watchdog: thread {who} was never released"
            raise HarnessError(self.error)
        self.go[who].clear()
        self.state[who] = "running"

    def yield_point(self, who, site):
        self.points += 1
        self.state[who] = "parked"
        self.parked.set()
        self.wait_turn(who)

    def finished(self, who):
        self.state[who] = "done"
        self.parked.set()

    # ---- called from the scheduler (main thread)
    def run(self):
        while True:
            live = [i for i in self.ids if self.state[i] != "done"]
            if not live:
                return
            choice = live[self.seq[self.pos % len(self.seq)] % len(live)]
            self.pos += 1
            if self.last is not None and choice != self.last and self.state.get(self.last) != "done":
                self.switches += 1
            self.last = choice
            if len(self.trace) < 4096:
                self.trace.append(choice)
            self.parked.clear()
            self.go[choice].set()
            if not self.parked.wait(WATCHDOG_S):
                self.error = f"watchdog: thread {choice} did not reach a hand-over point"
                # release everybody so that threads can die; the run is a harness error
                for i in self.ids:
                    self.go[i].set()
                raise HarnessError(self.error)


def do_overlap(world, i, op):
    ms = list(op["ms"])
    baton = Baton(ms, op.get("baton") or [0])
    subs = {}
    errors = {}

    def body(m, sub_op):
        try:
            baton.wait_turn(m)
            subs[m] = world.do_update(i, sub_op, baton=baton)
        except BaseException as e:  # noqa: BLE001
            errors[m] = e
        finally:
            baton.finished(m)

    threads = []
    for m, (t0, t1) in zip(ms, op["intervals"]):
        sub_op = {"op": "update", "m": m, "t0": t0, "t1": t1}
        f = (op.get("faults") or {}).get(str(m))
        if f:
            sub_op["fault"] = f
        for k in ("flow", "path", "params"):
            pass
        th = threading.Thread(target=body, args=(m, sub_op), name=f"pdsim-overlap-{m}", daemon=True)
        threads.append(th)
    for th in threads:
        th.start()
    try:
        baton.run()
    finally:
        for th in threads:
            th.join(WATCHDOG_S)
    if baton.error or errors:
        raise HarnessError(f"overlap op failed: {baton.error or errors}")
    if any(th.is_alive() for th in threads):
        raise HarnessError("overlap op: a thread is still alive")
    rec = {"i": i, "op": "overlap", "ms": ms, "sub": [subs[m] for m in ms],
           "status": "overlap", "exc": None, "fault": None,
           "switches": baton.switches, "points": baton.points, "baton_trace": baton.trace[:64]}
    return rec

#!/venv/bin/python
"""Regenerate MANIFEST.json from the table below (run by hand; output committed)."""
import json

NA = {
 "C02": "pure function of one call's arguments (core.derivatives vs the published equations); no schedule, clock, fault or history for a simulator to control",
 "C03": "pure function of one call's arguments (skew spins, zero net volume rate); nothing to schedule or fault",
 "C10": "pure function of the minerals' stored arrays (Voigt average)",
 "C11": "pure tensor algebra on one call's arguments",
 "C12": "pure function of a given stiffness matrix",
 "C13": "pure functions of given orientation arrays / deformation gradients",
 "C15": "pure function of (arrays, seed); the seed is an argument, no uncontrolled randomness to put behind a seam",
 "C16": "pure function composed through a file; the statement promises nothing under I/O faults, schedules or operation histories",
 "C18": "pure functions of their arguments (analytic flows, pathline construction); internal event state is not schedulable from outside",
 "C19": "pure mapping from a file's contents / dataclass fields to values",
 "C20": "pure geometry functions of one call's arguments",
}

CHECKS = {
 "C01": dict(
   engine="world",
   category="exploration",
   text="Seeded simulation of update histories (1-3 real Mineral objects; seeded partition, interleaving, regime switching, restart through the store, faulted updates and retries, bulk updates failing part-way over histories of different lengths, overlapped caller threads, time origins up to 1e6, rotation-dominated / compact-support / exactly stagnant (zero, gated) / PyDRex's own flows and pathlines, solver kwargs); count, shape, simplex, range, orthonormality-bound, immutability and seed-reproducibility clauses are checked on every mineral after every op against a reference model holding copies and hashes of every snapshot ever stored. Evidence over the seeds explored, not proof.",
   design_ref="DESIGN.md 4.1",
   note="scipy LSODA trusted as a black box; updates that raise without an injected fault count as rejected (coverage floor: >= 50% of fault-free updates must complete); two listed known findings for the orthonormality clause (matrix_diffusion regime; > 6 rad of rigid rotation at tiny strain) are matched narrowly and printed as KNOWN-FINDING lines",
   technique="deterministic simulation: seeded histories with fault injection, invariants after every event",
 ),
 "C07": dict(
   engine="world",
   category="fault_enumeration",
   text="Faults (callback raises one of eight exception types incl. a BaseException subclass, malformed / non-finite return values, unsupported regime from get_regime, solver reporting failure, params key vanishing, phase missing from the assemblage; also inside bulk updates, which must then have appended to a prefix of the mineral list only, and while another caller thread's update is in flight) are injected inside real update_orientations calls at instants found by dry-running the update on a never-faulted twin; for up to two updates per run the fault is injected at EVERY callback / solver-step / key-read index (<= 64 instants, else evenly spread). After each injection: the call raised and the history lists are the same objects with unchanged length and unchanged snapshot hashes on every mineral of the world, or the call succeeded with the complete result of the twin; the first fault-free retry reproduces the twin within the solver-step budget. Rejection clause: unsupported and out-of-range regimes (also appearing mid-interval), mismatched fabrics, invalid phases must raise under any flow including L == 0 and rigid rotation. Null-forcing clause: L == 0, gated-to-zero L, viscosity-bound regimes and M* = 0 histories (M* also switched to zero in place part-way) leave orientations / fractions unchanged to 1e-12 (modulo the documented floor-and-renormalise of grains below the sliding threshold) while F follows the reference integrator.",
   design_ref="DESIGN.md 4.5",
   note="asynchronous exceptions between bytecodes are not injected; scipy LSODA trusted; for non-finite/malformed L the only demand is 'if it raises, history is untouched'; mismatched (phase, fabric) only required to be rejected in dislocation-type regimes; known finding KF-C07-contracting-map (F sub-clause under strongly compressing flows) matched narrowly",
   technique="deterministic simulation: fault injection enumerated over every collaborator call index of an update, reference twin",
 ),
 "C06": dict(
   engine="world",
   category="exploration",
   text="Every F returned by update_orientations / update_all along seeded histories (non-identity starting F; non-commuting constant, time-periodic, position-dependent-along-a-moving-pathline, compact-support (pulse / shear band) flows and PyDRex's own cell / simple-shear flows and get_pathline pathlines; time origins up to 1e6; reversed intervals and round trips; all accepted regimes; seeded partitions; bulk updates in seeded orders) is refined against an independent reference integration (expm / DOP853 at 1e-11) started from the F handed in: per call, cumulatively over the history with the statement's bound, in determinant against exp(int tr L), and split-vs-whole on a twin world executing the merged interval.",
   design_ref="DESIGN.md 4.4",
   note="reference integrator trusted; independence from phase/fabric/regime/grain count follows from every mineral being refined against the same reference within the bound; two listed known findings (adaptive solver stepping over compact-support fields; large backward-in-time strains) are matched narrowly and printed as KNOWN-FINDING lines",
   technique="deterministic simulation: seeded histories refined against an executable reference model",
 ),
 "C09": dict(
   engine="world",
   category="exploration",
   text="apply_gbs is interposed (recording pass-through around the real compiled function). Seeded histories biased to push grains through chi/n (high M*, few grains, non-uniform volumes with exact zeros, exact-tie constructions, chi = 0) are executed and after every update the stored snapshot is compared with the value recomputed by the harness from the recorded inputs of the last interposed call: frozen grains bit-equal to the start-of-update snapshot, others bit-equal to the integrated orientation, fractions = floor-and-renormalise to 1e-12 relative, reference snapshot = previous snapshot, seam inputs (n, chi), min-fraction bound, ordering, chi = 0.",
   design_ref="DESIGN.md 4.7",
   note="'integrated volume fraction' is what the last solver step hands to apply_gbs; if the seam is never reached the check exits 2 (harness error), never 0",
   technique="deterministic simulation: seeded histories with an interposed seam and a recomputing oracle after every event",
 ),
 "C04": dict(
   engine="world",
   category="exploration",
   text="Twin-world simulation: the same seeded op list (partition, interleaving, faulted updates and retries) is executed in a world and in a twin seen from a frame rotated by a seeded proper rotation, or with a seeded subset of grains replaced by two-fold symmetry equivalents; every stored snapshot and returned F is compared under the mapping within twice the accumulated solver tolerance, a default-solver discrepancy being reported only if it persists with rtol 1e-10. The instantaneous-rate clause is checked (1e-9 relative) only on a seeded sample of the states these histories reach, by re-evaluating the real core.derivatives on the transformed state.",
   design_ref="DESIGN.md 4.2",
   note="integrated-texture clause claimed for sampled histories; rate clause only on reached states (not all of SO(3)); comparisons stop at exact ties at the sliding threshold; axis-aligned textures with exactly vanishing slip invariants (C03's measure-zero set) not generated",
   technique="deterministic simulation: transformed twin world executing the same seeded schedule, history comparison",
 ),
 "C05": dict(
   engine="world",
   category="exploration",
   text="Twin-world simulation in which the simulator's model clock runs kappa times faster with the forcing multiplied by kappa (kappa a power of two or log-uniform; rates within [1e-16, 1e3]); the same seeded op list (partition, interleaving, faulted updates and retries) is executed in both and every stored snapshot and returned F compared within twice the accumulated solver tolerance, a default-solver discrepancy being reported only if it persists with rtol 1e-10. Observed agreement (rounding level for the default solver) is reported as tolerance margin.",
   design_ref="DESIGN.md 4.3",
   note="the k and L dimensions are input sampling; what the simulator adds is the history/partition dimension and ownership of the clock; comparisons stop at exact ties at the sliding threshold",
   technique="deterministic simulation: clock-rate-scaled twin world executing the same seeded schedule, history comparison",
 ),
 "C08": dict(
   engine="world",
   category="exploration",
   text="Seeded scheduler over 2-4 real Mineral objects (both phases, own flows/params/pathlines): call-level interleavings plus overlapped updates in which 2-3 minerals are advanced by real caller threads parked at every collaborator callback and released one at a time following a baton sequence that is part of the scenario; neighbours' updates carry injected faults. Every mineral's history (all snapshots, every returned F, every status) must be BIT-IDENTICAL between the interleaved/overlapped execution, its solo execution, the execution with phase and fraction lists permuted together (for the whole history, and reversed in place before a seeded subset of the calls), the execution handing an equal but newly built params dict to every call (while the driver rewrites phase fractions in place between calls), the execution with only the other phase's fraction changed, and an identically built and driven duplicate; one bulk update from the reached state in two orders must give every mineral the snapshot of its own single update and return the last mineral's F; the single-phase mineral with mobility M* x phi is compared at 1e-6 (tight solver).",
   design_ref="DESIGN.md 4.6",
   note="nested same-thread re-entry excluded (scipy LSODA forbids it); threads are real, the choice of who runs between two callbacks is the simulator's (watchdog turns a stuck hand-over into exit 2)",
   technique="deterministic simulation: seeded scheduler with baton-passed caller threads, bit-identity against solo twin",
 ),
 "C14": dict(
   engine="simpool",
   category="exploration",
   text="Batched clause only. misorientation_indices is driven through a simulated pool (SimPool: discrete-event model of the multiprocessing.Pool API with 1..16 simulated workers, seeded heavy-tailed task durations, stalls, lazy feeding, chunking, so that completion order differs from submission order) on both entry paths (pool=, and ncpus= with pydrex.diagnostics.Pool rebound to a SimPool factory) and through the Ray branch against a stub, in histories of 1-4 calls in which an external pool is reused with other stacks / lattice systems / bin counts; the output must equal the scalar misorientation_index applied snapshot by snapshot (evaluated in children forked from the run's pristine state), bit for bit and in order (stacks include runs of consecutive identical snapshots). SimPool models imap / imap_unordered / map / starmap / map_async / apply_async (callbacks fire in completion order) and the context-manager lifecycle. Real multiprocessing.Pool runs (1, 2, 3, 7, 16 workers, external pool) are an uncontrolled supplement reported separately.",
   design_ref="DESIGN.md 4.8",
   note="the pool and Ray are stubs modelling the documented ordering guarantees; what is decided is that PyDRex's result assembly does not depend on completion order; scalar clauses of C14 (range, invariances, limits) are pure functions and not claimed",
   technique="deterministic simulation: discrete-event simulated worker pool with seeded completion orders",
 ),
 "C17": dict(
   engine="simstore",
   category="exploration",
   text="Seeded save/load histories over several real NPZ archives in a private directory are checked operation by operation against an in-memory reference map (archive, postfix) -> saved state: loads through Mineral.from_file and Mineral.load (into existing objects whose phase, fabric, regime, grain count and history differ) must restore phase, fabric, regime, grain count and every snapshot bytewise (NaN payloads, infinities, -0.0, denormals); after every operation every judged key of every archive is re-loaded (isolation); restarts drop all in-memory objects; 39 postfix shapes (punctuation, blanks, path separators, unicode, non-string, falsy non-None), absolute and cwd-relative file names; rejected operations injected at arbitrary points (unequal snapshot counts, array sizes != grain count, non-NPZ names; fresh path / existing archive / missing parent directory) must raise ValueError and leave the file-system snapshot (tree, sizes, content hashes) unchanged.",
   design_ref="DESIGN.md 4.9",
   note="judged: whole-file save loaded back with nothing in between, and distinct-postfix saves into postfix-only archives; mixing whole-file and postfix saves, postfix re-use, non-.npz save names and crash consistency under I/O errors are generated/observed but not judged (statement silent)",
   technique="deterministic simulation: seeded operation histories against a reference store model with injected rejected operations",
 ),
}

def build():
    checks = []
    for pid, c in sorted(CHECKS.items()):
        checks.append({
            "property_id": pid,
            "quick_cmd": f"./check {pid} --tier quick",
            "thorough_cmd": f"./check {pid} --tier thorough",
            "evidence_file": f"/verif/evidence/{pid}.json",
            "replay_cmd_template": f"./check {pid} --replay {{path}}",
            "engine": c["engine"],
            "level_claimed": {"category": c["category"], "text": c["text"], "design_ref": c["design_ref"]},
            "level_note": c["note"],
            "technique": c["technique"],
        })
    m = {
        "version": 1,
        "setup_cmd": "/venv/bin/python -c \"import numpy, scipy, numba, hypothesis\"",
        "hooks": {
            "guard": "PYDREX_VERIF",
            "enable": "no hooks: every seam is an argument of the public API or a module attribute (pydrex.utils.apply_gbs, pydrex.minerals.LSODA, pydrex.core.derivatives, pydrex.diagnostics.Pool) rebound by the harness from outside; checks import pydrex from /repo/src of the current working tree",
            "baseline_off_cmd": "cd /repo && /venv/bin/python -m pytest -ra -q -p no:cacheprovider --timeout=900 --continue-on-collection-errors",
            "source_commits": [],
            "add_only": True,
        },
        "engines": [
            {"name": "world", "path": "pdsim/world.py", "serves_properties": ["C01", "C04", "C05", "C06", "C07", "C08", "C09"],
             "kind_free_text": "Engine A: real Mineral objects advanced through simulator-owned model time; seeded scheduler, fault injection at every collaborator seam, reference model, twin worlds"},
            {"name": "simpool", "path": "pdsim/simpool.py", "serves_properties": ["C14"],
             "kind_free_text": "Engine B: discrete-event model of the multiprocessing.Pool API with seeded worker count, task durations, stalls and completion order"},
            {"name": "simstore", "path": "pdsim/store.py", "serves_properties": ["C17"],
             "kind_free_text": "Engine C: save/load histories over real NPZ archives in a private directory against an in-memory reference map; file-system snapshots around every op"},
        ],
        "checks": checks,
        "notes": "See DESIGN.md. Exit 0 held / 1 VIOLATION / 2 harness error. known_findings.json lists known and fixed findings.",
        "not_applicable": [{"property_id": k, "reason": v} for k, v in NA.items()],
    }
    m["engines"] = [e for e in m["engines"] if any(p in CHECKS for p in e["serves_properties"])]
    json.dump(m, open("/verif/MANIFEST.json", "w"), indent=1)

if __name__ == "__main__":
    build()

#!/bin/bash
# Large-sample determinism proof: for each property, N run digests computed by two fresh
# interpreters (different PYTHONHASHSEED, sequential single process) and compared with each other;
# the per-invocation self-test additionally compares 15 forked workers against a fresh interpreter.
N=${1:-300}; props=${2:-"C01 C04 C05 C06 C07 C08 C09 C14 C17"}
for p in $props; do
  PYTHONHASHSEED=11 VERIF_SEED=424242 ./check $p --digests-only $N 2>/dev/null | grep ^DIGESTS > /tmp/det_$p.a &
  PYTHONHASHSEED=977 VERIF_SEED=424242 ./check $p --digests-only $N 2>/dev/null | grep ^DIGESTS > /tmp/det_$p.b &
  wait
  if cmp -s /tmp/det_$p.a /tmp/det_$p.b && [ -s /tmp/det_$p.a ]; then
    n=$(python3 -c "import json;print(len(json.loads(open('/tmp/det_$p.a').read()[8:])))")
    e=$(grep -o "ERR" /tmp/det_$p.a | wc -l)
    echo "$p: $n digests identical across two fresh interpreters (PYTHONHASHSEED 11 vs 977); ERR entries: $e"
  else
    echo "$p: DIGESTS DIFFER"
  fi
  rm -f /tmp/det_$p.a /tmp/det_$p.b
done

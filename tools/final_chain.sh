#!/bin/bash
# re-verification after the last changes: a 4-seed soak first (false alarms matter most), then all
# seeded defects (reduced run counts), then the twin/C06 mutants
tools/soak.sh "C01 C04 C05 C06 C07 C08 C09 C14 C17" "1 2 3 4" quick
SEEDED_RUNS=${SEEDED_RUNS:-700} tools/seeded_all.sh 2>&1
for m in c04_ c05_ c06_; do tools/mutants.py --only $m --runs 400 2>&1 | grep -v '^ "\|^{\|^}'; done

#!/bin/bash
# re-verification after the last changes: all seeded defects, the twin/C06 mutants, then a 6-seed soak
tools/seeded_all.sh 2>&1
for m in c04_ c05_ c06_; do tools/mutants.py --only $m --runs 400 2>&1 | grep -v '^ "\|^{\|^}'; done
tools/soak.sh "C01 C04 C05 C06 C07 C08 C09 C14 C17" "1 2 3 4 5 6" quick

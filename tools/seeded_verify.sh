#!/bin/bash
# usage: tools/seeded_verify.sh <id> <dir-with-patch.diff-demo.py-meta.json> "<props>" [--tests] [--runs N]
# Verifies a seeded defect in a scratch worktree (never in /repo): demo passes without / fails with the
# patch; optionally the pinned test suite passes with it; then runs the named checks against the patched
# scratch tree through VERIF_PYDREX_SRC. Scratch worktree is removed at the end.
id=$1; src=$2; props=$3; shift 3
tests=0; runs=""
while [ $# -gt 0 ]; do case $1 in --tests) tests=1;; --runs) runs="--runs $2"; shift;; esac; shift; done
wt=/tmp/vt_$id
git -C /repo worktree remove --force $wt 2>/dev/null; rm -rf $wt
git -C /repo worktree add -q --detach $wt HEAD || exit 3
cp $src/demo.py $wt/demo_seeded.py
cd $wt
echo "--- demo WITHOUT patch"; PYTHONPATH=$wt/src timeout 900 /venv/bin/python demo_seeded.py > /tmp/vt_$id.clean.log 2>&1; echo "exit=$?"
git apply $src/patch.diff || { echo "PATCH DOES NOT APPLY"; exit 4; }
git diff --stat | tail -3
echo "--- demo WITH patch"; PYTHONPATH=$wt/src timeout 900 /venv/bin/python demo_seeded.py > /tmp/vt_$id.patched.log 2>&1; echo "exit=$?"; tail -3 /tmp/vt_$id.patched.log
if [ $tests = 1 ]; then
  echo "--- pinned test suite WITH patch"
  PYTHONPATH=$wt/src timeout 3000 /venv/bin/python -m pytest -q -p no:cacheprovider --timeout=900 --continue-on-collection-errors 2>&1 | tail -3
fi
cd /verif
for p in $props; do
  echo "--- check $p against patched tree"
  VERIF_PYDREX_SRC=$wt/src VERIF_REPLAY_DIR=/tmp/vt_${id}_replays ./check $p --no-evidence --no-selftest $runs 2>&1 | grep -E "^VIOLATION|clause=|^OK|^HARNESS|runs=" | cut -c1-400
done
git -C /repo worktree remove --force $wt; rm -rf $wt

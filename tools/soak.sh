#!/bin/bash
# usage: tools/soak.sh "<props>" "<seeds>" [tier] [extra args]   -- runs checks without touching evidence
props=${1:-"C01 C04 C05 C06 C07 C08 C09 C14 C17"}; seeds=${2:-"1 2 3"}; tier=${3:-quick}; shift 3
for sd in $seeds; do for p in $props; do
  echo "=== $p seed=$sd tier=$tier"
  VERIF_SEED=$sd ./check $p --tier $tier --no-evidence --no-selftest "$@" 2>&1 | grep -E "VIOLATION|HARNESS|KNOWN|OK property|runs=|clause=|maxima|WARNING"
done; done

#!/bin/bash
# Re-run every kept seeded defect against the current checks (scratch worktrees only).
# usage: tools/seeded_all.sh [ids...]   -> writes /tmp/seeded_all.log
ids=${@:-$(ls /verif/seeded)}
for id in $ids; do
  prop=$(echo $id | cut -c1-3)
  echo "=========== $id"
  /verif/tools/seeded_verify.sh $id /verif/seeded/$id "$prop" ${SEEDED_RUNS:+--runs $SEEDED_RUNS} 2>&1 | grep -E "^---|exit=|^VIOL|clause=|^OK|^HARN|runs=" | cut -c1-300
done

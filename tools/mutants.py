#!/venv/bin/python
"""Sensitivity runs: apply each seeded defect to a scratch copy of /repo/src (outside /repo
and /verif), point the check at it through VERIF_PYDREX_SRC, expect a VIOLATION whose replay
reproduces; remove the scratch copy.

usage: tools/mutants.py [--only name-substring] [--props C01,C07] [--runs N] [--write-patches]
"""
import argparse, difflib, json, os, shutil, subprocess, sys, tempfile, time

VERIF = os.path.dirname(os.path.dirname(os.path.abspath(__file__)))
M = "src/pydrex/minerals.py"; C = "src/pydrex/core.py"; U = "src/pydrex/utils.py"; D = "src/pydrex/diagnostics.py"

# name -> (properties whose check must catch it, file, old, new)
MUTANTS = {
 "c01_no_clip": (["C01"], U,
   "reshape((n_grains, 3, 3)).clip(-1, 1)", "reshape((n_grains, 3, 3))"),
 "c01_append_in_loop": (["C01", "C07"], M,
   "        while solver.status == \"running\":\n            perform_step(solver)\n",
   "        while solver.status == \"running\":\n            perform_step(solver)\n            if solver.status == \"running\" and len(self.orientations) % 7 == 0:\n                self.orientations.append(self.orientations[-1])\n                self.fractions.append(self.fractions[-1])\n"),
 "c01_gbs_writes_prev": (["C01", "C09"], U,
   "    orientations[mask, :, :] = orientations_prev[mask, :, :]\n",
   "    orientations_prev[mask, :, :] = orientations[mask, :, :]\n"),
 "c04_abs_slip_ratio": (["C04"], C,
   "    slip_rates[i_min] = ratio_min * np.abs(ratio_min) ** (deformation_exponent - 1)\n",
   "    slip_rates[i_min] = np.abs(ratio_min) ** deformation_exponent\n"),
 "c04_schmid_columns": (["C04"], C,
   "                + slip_rates[2] * orientation[2, i] * orientation[1, j]\n",
   "                + slip_rates[2] * orientation[i, 2] * orientation[j, 1]\n"),
 "c04_scale_by_diag": (["C04"], M,
   "            strain_rate_max = np.abs(la.eigvalsh(strain_rate)).max()\n",
   "            strain_rate_max = max(np.abs(np.diag(strain_rate)).max(), 0.3 * np.abs(la.eigvalsh(strain_rate)).max())\n"),
 "c05_no_rescale_fractions": (["C05"], M,
   "                    fractions_diff * strain_rate_max,\n", "                    fractions_diff,\n"),
 "c05_L_not_divided": (["C05"], M,
   "                velocity_gradient=velocity_gradient / strain_rate_max,\n",
   "                velocity_gradient=velocity_gradient,\n"),
 "c06_F_at_L": (["C06"], M,
   "            deformation_gradient_diff = velocity_gradient @ deformation_gradient\n",
   "            deformation_gradient_diff = deformation_gradient @ velocity_gradient\n"),
 "c06_position_at_start": (["C06"], M,
   "            position = get_position(t)\n            velocity_gradient = get_velocity_gradient(t, position)\n",
   "            position = get_position(time_start)\n            velocity_gradient = get_velocity_gradient(t, position)\n"),
 "c06_update_all_chains_F": (["C06", "C08"], M,
   "        new_deformation_gradient = mineral.update_orientations(\n            params=params,\n            deformation_gradient=deformation_gradient,\n",
   "        new_deformation_gradient = deformation_gradient = mineral.update_orientations(\n            params=params,\n            deformation_gradient=deformation_gradient,\n"),
 "c07_append_before_loop": (["C07"], M,
   "        perform_step(solver)\n        while solver.status == \"running\":\n            perform_step(solver)\n\n        # Extract final values for this simulation step, append to storage.\n        deformation_gradient, orientations, fractions = _utils.extract_vars(\n            solver.y.squeeze(), self.n_grains\n        )\n        self.orientations.append(orientations)\n        self.fractions.append(fractions)\n",
   "        self.orientations.append(self.orientations[-1])\n        self.fractions.append(self.fractions[-1])\n        perform_step(solver)\n        while solver.status == \"running\":\n            perform_step(solver)\n\n        # Extract final values for this simulation step, append to storage.\n        deformation_gradient, orientations, fractions = _utils.extract_vars(\n            solver.y.squeeze(), self.n_grains\n        )\n        self.orientations[-1] = orientations\n        self.fractions[-1] = fractions\n"),
 "c07_swallow_iteration_error": (["C07"], M,
   "            if message is not None and solver.status == \"failed\":\n                raise _err.IterationError(message)\n",
   "            if message is not None and solver.status == \"failed\":\n                _log.warning(message)\n                return\n"),
 "c07_unsupported_returns_zeros": (["C07"], C,
   "    elif regime == DeformationRegime.sliding_dislocation:\n        raise ValueError(\"this deformation mechanism is not yet supported.\")\n",
   "    elif regime == DeformationRegime.sliding_dislocation:\n        return np.zeros((n_grains, 3, 3)), np.zeros(n_grains)\n"),
 "c08_fraction_by_ordinal": (["C08"], M,
   "                volume_fraction = params[\"phase_fractions\"][\n                    params[\"phase_assemblage\"].index(self.phase)\n                ]\n",
   "                volume_fraction = params[\"phase_fractions\"][\n                    min(int(self.phase), len(params[\"phase_fractions\"]) - 1)\n                ]\n"),
 "c08_always_first_fraction": (["C08"], M,
   "                    params[\"phase_assemblage\"].index(self.phase)\n                ]\n",
   "                    params[\"phase_assemblage\"].index(self.phase) * 0\n                ]\n"),
 "c08_module_memo_fraction": (["C08"], M,
   "            try:\n                volume_fraction = params[\"phase_fractions\"][\n                    params[\"phase_assemblage\"].index(self.phase)\n                ]\n",
   "            try:\n                global _VF_MEMO\n                try:\n                    _VF_MEMO\n                except NameError:\n                    _VF_MEMO = {}\n                if int(self.phase) not in _VF_MEMO:\n                    _VF_MEMO[int(self.phase)] = params[\"phase_fractions\"][\n                        params[\"phase_assemblage\"].index(self.phase)\n                    ]\n                volume_fraction = _VF_MEMO[int(self.phase)]\n                params[\"phase_fractions\"][\n                    params[\"phase_assemblage\"].index(self.phase)\n                ]\n"),
 "c08_module_scratch_buffer": (["C08"], M,
   "            strain_rate = (velocity_gradient + velocity_gradient.transpose()) / 2\n",
   "            global _SCRATCH_L\n            _SCRATCH_L = velocity_gradient\n            position = get_position(t)  # re-evaluate (hand-over point)\n            velocity_gradient = _SCRATCH_L\n            strain_rate = (velocity_gradient + velocity_gradient.transpose()) / 2\n"),
 "c09_inverted_mask": (["C09"], U,
   "    mask = fractions < (gbs_threshold / n_grains)\n", "    mask = fractions > (gbs_threshold / n_grains)\n"),
 "c09_floor_chi": (["C09"], U,
   "    fractions[mask] = gbs_threshold / n_grains\n", "    fractions[mask] = gbs_threshold\n"),
 "c09_reference_initial": (["C09"], M,
   "                params[\"gbs_threshold\"],\n                self.orientations[-1],\n",
   "                params[\"gbs_threshold\"],\n                self.orientations[0],\n"),
 "c09_mask_le": (["C09"], U,
   "    mask = fractions < (gbs_threshold / n_grains)\n", "    mask = fractions <= (gbs_threshold / n_grains)\n"),
 "c14_imap_unordered": (["C14"], D,
   "            for i, out in enumerate(pool.imap(_run, orientation_stack)):\n                m_indices[i] = out\n    else:",
   "            for i, out in enumerate(pool.imap_unordered(_run, orientation_stack)):\n                m_indices[i] = out\n    else:"),
 "c14_imap_unordered_external": (["C14"], D,
   "        else:\n            for i, out in enumerate(pool.imap(_run, orientation_stack)):\n",
   "        else:\n            for i, out in enumerate(pool.imap_unordered(_run, orientation_stack)):\n"),
 "c14_reversed": (["C14"], D,
   "        else:\n            for i, out in enumerate(pool.imap(_run, orientation_stack)):\n                m_indices[i] = out\n",
   "        else:\n            for i, out in enumerate(pool.imap(_run, orientation_stack[::-1])):\n                m_indices[i] = out\n"),
 "c14_off_by_one": (["C14"], D,
   "        else:\n            for i, out in enumerate(pool.imap(_run, orientation_stack)):\n                m_indices[i] = out\n",
   "        else:\n            for i, out in enumerate(pool.imap(_run, orientation_stack[1:]), 1):\n                m_indices[i] = out\n            if len(orientation_stack):\n                m_indices[0] = _run(orientation_stack[-1])\n"),
 "c17_meta_order": (["C17"], M,
   "                    [self.phase, self.fabric, self.regime], dtype=np.uint8\n",
   "                    [self.fabric, self.phase, self.regime], dtype=np.uint8\n"),
 "c17_float32": (["C17"], M,
   "                \"fractions\": np.stack(self.fractions),\n",
   "                \"fractions\": np.stack(self.fractions).astype(np.float32),\n"),
 "c17_postfix_fallback": (["C17"], M,
   "        data = np.load(filename)\n        if postfix is not None:\n            phase, fabric, regime = data[f\"meta_{postfix}\"]\n            fractions = list(data[f\"fractions_{postfix}\"])\n            orientations = list(data[f\"orientations_{postfix}\"])\n",
   "        data = np.load(filename)\n        if postfix is not None:\n            phase, fabric, regime = data[f\"meta_{postfix}\"]\n            _pf = sorted(k for k in data.files if k.startswith(\"fractions_\") and k.endswith(postfix))[0]\n            fractions = list(data[_pf])\n            orientations = list(data[f\"orientations_{postfix}\"])\n"),
 "c17_validate_after_write": (["C17"], M,
   "        if self.fractions[0].shape[0] == self.orientations[0].shape[0] == self.n_grains:\n            data = {",
   "        _io.resolve_path(filename)\n        if self.fractions[0].shape[0] == self.orientations[0].shape[0] == self.n_grains:\n            data = {"),
 "c17_load_keeps_regime": (["C17"], M,
   "        self.phase = phase\n        self.fabric = fabric\n        self.regime = regime\n        self.n_grains",
   "        self.phase = phase\n        self.fabric = fabric\n        self.n_grains"),
}


def main():
    ap = argparse.ArgumentParser()
    ap.add_argument("--only")
    ap.add_argument("--props")
    ap.add_argument("--runs", type=int)
    ap.add_argument("--write-patches", action="store_true")
    ap.add_argument("--tier", default="quick")
    a = ap.parse_args()
    results = {}
    os.makedirs(os.path.join(VERIF, "mutants"), exist_ok=True)
    for name, (props, rel, old, new) in MUTANTS.items():
        if a.only and a.only not in name:
            continue
        src_text = open(os.path.join("/repo", rel)).read()
        if src_text.count(old) != 1:
            print(f"{name}: anchor occurs {src_text.count(old)} times -- SKIPPED"); results[name] = "anchor"; continue
        mutated = src_text.replace(old, new)
        if a.write_patches:
            diff = "".join(difflib.unified_diff(src_text.splitlines(True), mutated.splitlines(True),
                                                "a/" + rel, "b/" + rel))
            open(os.path.join(VERIF, "mutants", name + ".patch"), "w").write(diff)
            continue
        scratch = tempfile.mkdtemp(prefix="pdsim_mut_")
        try:
            shutil.copytree("/repo/src", os.path.join(scratch, "src"),
                            ignore=shutil.ignore_patterns("__pycache__", "*.egg-info"))
            open(os.path.join(scratch, rel), "w").write(mutated)
            for prop in props:
                if a.props and prop not in a.props.split(","):
                    continue
                env = dict(os.environ, VERIF_PYDREX_SRC=os.path.join(scratch, "src"),
                           VERIF_REPLAY_DIR=os.path.join(scratch, "replays"))
                cmd = [os.path.join(VERIF, "check"), prop, "--tier", a.tier, "--no-evidence", "--no-selftest"]
                if a.runs:
                    cmd += ["--runs", str(a.runs)]
                t = time.time()
                r = subprocess.run(cmd, cwd=VERIF, env=env, capture_output=True, text=True)
                vio = [ln for ln in r.stdout.splitlines() if ln.startswith("VIOLATION")]
                clause = [ln.strip() for ln in r.stdout.splitlines() if ln.strip().startswith("clause=")]
                ok = r.returncode == 1 and bool(vio)
                rep = ""
                if ok:
                    path = vio[0].split("replay=")[1].split()[0]
                    r2 = subprocess.run([os.path.join(VERIF, "check"), prop, "--replay", path], cwd=VERIF,
                                        env=env, capture_output=True, text=True)
                    rep = "replay-reproduces" if (r2.returncode == 1 and "WARNING" not in r2.stdout) else "REPLAY-FAILED"
                    doc = json.load(open(path))
                    rep += f" ops {doc.get('original_ops')}->{doc.get('minimised_ops')}"
                results[f"{name}/{prop}"] = "CAUGHT" if ok else f"MISSED(exit {r.returncode})"
                print(f"{name:34s} {prop}: {'CAUGHT' if ok else 'MISSED exit=' + str(r.returncode)} "
                      f"{time.time() - t:.0f}s {rep} {clause[0][:110] if clause else ''}")
                if not ok:
                    print("    " + "\n    ".join(r.stdout.splitlines()[-6:]))
                    print("    " + "\n    ".join(r.stderr.splitlines()[-4:]))
                sys.stdout.flush()
        finally:
            shutil.rmtree(scratch, ignore_errors=True)
    if not a.write_patches:
        print(json.dumps(results, indent=1))


if __name__ == "__main__":
    main()
